from pytestarch import get_evaluable_architecture
def show(name, **kw):
    try:
        ev = get_evaluable_architecture("/tmp/probe/p10/proj", kw.pop("mp", "/tmp/probe/p10/proj"), **kw)
    except Exception as e:
        print(name, "EXC", type(e).__name__, e); return
    g = ev._graph._graph
    print(name); print("  mods", sorted(n for n in g.nodes if n.startswith("proj"))); print("  imps", sorted((a,b) for a,b,d in g.edges(data=True) if not d["inherits"] and b.startswith("proj")))
show("include")
show("include, ext excl *handlers", exclude_external_libraries=False, external_exclusions=("*handlers",))
show("include, ext excl *.h", exclude_external_libraries=False, external_exclusions=("*.h",))
show("include, ext excl proj*", exclude_external_libraries=False, external_exclusions=("proj*",))
