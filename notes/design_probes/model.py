"""Quick reference model of module-rule semantics (probe)."""
import itertools, random
from pytestarch import Rule
from pytestarch.eval_structure.evaluable_graph import EvaluableArchitectureGraph
from pytestarch.eval_structure.networkxgraph import NetworkxGraph
from pytestarch.eval_structure_generation.file_import.import_types import AbsoluteImport

def anc(m):
    p = m.split("."); return [".".join(p[:i]) for i in range(1, len(p))]
def is_anc(a, b):  # a strict ancestor of b
    return b.startswith(a + ".")
def related(a, b): return a == b or is_anc(a, b) or is_anc(b, a)

def build(mods, imps):
    return EvaluableArchitectureGraph(NetworkxGraph(list(mods), [AbsoluteImport(a, b) for a, b in imps]))

def S(f, mods):
    kind, x = f
    d = {m for m in mods if is_anc(x, m)}
    return d | {x} if kind == "named" else d

def ref(mods, imps, verb, direction, exc, subs, objs, inside_parent):
    """returns verdict bool (True = passes)."""
    ok = True
    Oset = set().union(*[S(o, mods) for o in objs])
    for s in subs:
        Ss = S(s, mods)
        inside = set(Ss)
        if s[0] == "sub" and inside_parent: inside.add(s[1])
        def E(o):
            So = S(o, mods)
            if direction == "import": return {(a,b) for a,b in imps if a in Ss and b in So}
            return {(a,b) for a,b in imps if a in So and b in Ss}
        if direction == "import":
            oth = {(a,b) for a,b in imps if a in Ss and b not in inside and b not in Oset}
        else:
            oth = {(a,b) for a,b in imps if b in Ss and a not in inside and a not in Oset}
        if not exc:
            if verb == "should": ok &= all(E(o) for o in objs)
            elif verb == "should_only": ok &= all(E(o) for o in objs) and not oth
            else: ok &= not any(E(o) for o in objs)
        else:
            if verb == "should": ok &= bool(oth)
            elif verb == "should_only": ok &= bool(oth) and not any(E(o) for o in objs)
            else: ok &= not oth
    return ok

def mk_rule(verb, direction, exc, subs, objs):
    r = Rule().modules_that()
    def spec(r, fs):
        kind = fs[0][0]
        names = [f[1] for f in fs]
        arg = names if len(names) > 1 else names[0]
        return r.are_named(arg) if kind == "named" else r.are_sub_modules_of(arg)
    r = spec(r, subs)
    r = getattr(r, verb)()
    m = {("import", False): "import_modules_that", ("import", True): "import_modules_except_modules_that",
         ("be", False): "be_imported_by_modules_that", ("be", True): "be_imported_by_modules_except_modules_that"}[(direction, exc)]
    r = getattr(r, m)()
    return spec(r, objs)

def run(rule, ev):
    try:
        rule.assert_applies(ev); return True, None
    except AssertionError as e:
        return False, str(e)
