from pytestarch import get_evaluable_architecture
from pytestarch.eval_structure.evaluable_architecture import ModuleNameFilter
ev = get_evaluable_architecture("/tmp/probe/proj", "/tmp/probe/proj")
g = ev._graph._graph
imps = sorted((a,b) for a,b,d in g.edges(data=True) if not d["inherits"])
for a,b in imps: print(a,"->",b)
