from model import *
from pytestarch import LayerRule, LayeredArchitecture
def t(name, fn):
    try:
        fn(); print(f"{name:50s} PASS")
    except AssertionError as e: print(f"{name:50s} FAIL {str(e)!r}")
    except Exception as e: print(f"{name:50s} {type(e).__name__}: {str(e)[:90]}")
for A, B in [("r.a", "r.b"), ("r.a", "r.ab")]:
    mods = ["r", A, B, "r.c", "r.d"]
    ev = build(mods, [(B, "r.c")])
    t(f"[{A},{B}] should_not import anything", lambda: Rule().modules_that().are_named([A, B]).should_not().import_anything().assert_applies(ev))
    ev = build(mods, [("r.c", B)])
    t(f"[{A},{B}] should_not be imported by anything", lambda: Rule().modules_that().are_named([A, B]).should_not().be_imported_by_anything().assert_applies(ev))
    # layers: A in L1, B in no layer; L1 should not access except L2 ; A imports B
    ev = build(mods, [(A, B), ("r.c", B)])
    arch = LayeredArchitecture().layer("L1").containing_modules([A]).layer("L2").containing_modules(["r.c"])
    t(f"L1=[{A}] should_not access except L2; {A}->{B}", lambda: LayerRule().based_on(arch).layers_that().are_named("L1").should_not().access_layers_except_layers_that().are_named("L2").assert_applies(ev))
    t(f"L2 should_not access L1; r.c->{B}", lambda: LayerRule().based_on(arch).layers_that().are_named("L2").should_not().access_layers_except_layers_that().are_named("L1").assert_applies(ev))
    arch2 = LayeredArchitecture().layer("L1").containing_modules([A]).layer("L2").containing_modules(["r.c"]).layer("L3").containing_modules([B])
    t(f"3 layers; L2 should_only access L1; r.c->{B}", lambda: LayerRule().based_on(arch2).layers_that().are_named("L2").should_only().access_layers_that().are_named("L1").assert_applies(ev))
    arch3 = LayeredArchitecture().layer("L1").containing_modules([A, "r.d"]).layer("L3").containing_modules([B])
    ev3 = build(mods + [B + ".k"], [("r.d", B + ".k")])
    t(f"L1=[{A},r.d] L3=[{B}] L1 should_not access L3; r.d->{B}.k", lambda: LayerRule().based_on(arch3).layers_that().are_named("L1").should_not().access_layers_that().are_named("L3").assert_applies(ev3))
