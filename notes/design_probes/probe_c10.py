from pytestarch import get_evaluable_architecture
def show(name, **kw):
    try:
        ev = get_evaluable_architecture("/tmp/probe/p10/proj", kw.pop("mp", "/tmp/probe/p10/proj"), **kw)
    except Exception as e:
        print(name, "EXC", type(e).__name__, e); return
    g = ev._graph._graph
    print(name); print("  mods", sorted(g.nodes)); print("  imps", sorted((a,b) for a,b,d in g.edges(data=True) if not d["inherits"]))
show("default")
show("include", exclude_external_libraries=False)
show("include, ext excl *handlers", exclude_external_libraries=False, external_exclusions=("*handlers",))
show("include, ext excl logging", exclude_external_libraries=False, external_exclusions=("logging",))
show("include, regex ext excl xml", exclude_external_libraries=False, regex_external_exclusions=(r"xml\.etree$",))
show("file excl skip + include", exclusions=("*skip.py",), exclude_external_libraries=False)
show("file excl skip", exclusions=("*skip.py",))
show("mp=pkg include", mp="/tmp/probe/p10/proj/pkg", exclude_external_libraries=False)
show("mp=pkg default", mp="/tmp/probe/p10/proj/pkg")
