import random, sys, collections
from model import *
rnd = random.Random(3)
TREE = ["r", "r.a", "r.a.x", "r.a.y", "r.b", "r.b.x", "r.b.x.p", "r.c", "r.d", "r.d.z"]
c = collections.Counter()
for it in range(40000):
    mods = TREE
    k = rnd.randint(0, 8)
    cand = [(a, b) for a in mods for b in mods if a != b]   # include ancestor->desc imports except direct parent
    cand = [(a,b) for a,b in cand if not (is_anc(a,b) and b.count(".")==a.count(".")+1)]
    imps = set(rnd.sample(cand, k))
    verb = rnd.choice(["should", "should_only", "should_not"]); direction = rnd.choice(["import", "be"]); exc = rnd.random() < .5
    def pick(n, avoid):
        kind = rnd.choice(["named", "sub"])
        pool = [m for m in mods if m != "r" and all(not related(m, x) for x in avoid) and (kind == "named" or any(is_anc(m, z) for z in mods))]
        out = []
        for _ in range(n):
            pool2 = [m for m in pool if all(not related(m, x) for x in out)]
            if not pool2: break
            out.append(rnd.choice(pool2))
        return [(kind, m) for m in out]
    subs = pick(rnd.randint(1, 2), [])
    if not subs: continue
    objs = pick(rnd.randint(1, 2), [s[1] for s in subs])
    if not objs: continue
    ev = build(mods, imps)
    try:
        got, msg = run(mk_rule(verb, direction, exc, subs, objs), ev)
    except Exception as e:
        got, msg = "EXC " + type(e).__name__, str(e)
    r1 = ref(mods, imps, verb, direction, exc, subs, objs, False)
    r2 = ref(mods, imps, verb, direction, exc, subs, objs, True)
    if r1 != r2:
        c[(direction, "code=strict" if got == r1 else "code=parent-inside" if got==r2 else got)] += 1
    elif got != r1:
        c[("DISC", verb, direction, exc, subs[0][0], objs[0][0], got, r1)] += 1
        if c[("DISC", verb, direction, exc, subs[0][0], objs[0][0], got, r1)] == 1: print(sorted(imps), subs, objs, msg)
for k, v in c.most_common(): print(v, k)
