from model import *
from pytestarch import LayeredArchitecture, LayerRule
import traceback
mods = ["r","r.a","r.a.x","r.b","r.c","r.d","r.e"]
def t(name, imps, arch, mk):
    ev = build(mods, imps)
    try:
        mk(LayerRule().based_on(arch).layers_that()).assert_applies(ev); print(name, "PASS")
    except AssertionError as e: print(name, "FAIL:", str(e).replace("\n"," | "))
    except Exception as e: print(name, "EXC", type(e).__name__, e)
# 1. intra-layer import as the only 'other' import
arch = LayeredArchitecture().layer("L1").containing_modules(["r.a","r.b"]).layer("L2").containing_modules(["r.c"])
t("intra-only should except", [("r.a","r.b")], arch, lambda r: r.are_named("L1").should().access_layers_except_layers_that().are_named("L2"))
t("intra-only should_only except", [("r.a","r.b")], arch, lambda r: r.are_named("L1").should_only().access_layers_except_layers_that().are_named("L2"))
t("intra-only should_not except", [("r.a","r.b")], arch, lambda r: r.are_named("L1").should_not().access_layers_except_layers_that().are_named("L2"))
t("intra-only should be except", [("r.a","r.b")], arch, lambda r: r.are_named("L1").should().be_accessed_by_layers_except_layers_that().are_named("L2"))
t("real other should except", [("r.a","r.d")], arch, lambda r: r.are_named("L1").should().access_layers_except_layers_that().are_named("L2"))
# 2. regex layer unused by rule
arch2 = LayeredArchitecture().layer("L1").containing_modules(["r.a"]).layer("L2").containing_modules(["r.c"]).layer("L3").have_modules_with_names_matching(r"r\.d$")
t("unused regex layer", [("r.a","r.c")], arch2, lambda r: r.are_named("L1").should().access_layers_that().are_named("L2"))
t("unused regex layer, violation w/ msg", [("r.a","r.d")], arch2, lambda r: r.are_named("L1").should_only().access_layers_that().are_named("L2"))
# 3. mixed regex/named object layers
arch3 = LayeredArchitecture().layer("L1").containing_modules(["r.a"]).layer("L2").containing_modules(["r.c"]).layer("L3").have_modules_with_names_matching(r"r\.d$")
t("mixed objs [named, regex]", [("r.a","r.c"),("r.a","r.d")], arch3, lambda r: r.are_named("L1").should().access_layers_that().are_named(["L2","L3"]))
t("mixed objs [regex, named]", [("r.a","r.c"),("r.a","r.d")], arch3, lambda r: r.are_named("L1").should().access_layers_that().are_named(["L3","L2"]))
arch4 = LayeredArchitecture().layer("L1").have_modules_with_names_matching(r"r\.a$").layer("L2").containing_modules(["r.c"])
t("regex subj named obj", [("r.a","r.c")], arch4, lambda r: r.are_named("L1").should().access_layers_that().are_named("L2"))
t("named subj regex obj", [("r.c","r.a")], arch4, lambda r: r.are_named("L2").should().access_layers_that().are_named("L1"))
# any-layer alias
t("should_not access any layer, intra import", [("r.a","r.b")], arch, lambda r: r.are_named("L1").should_not().access_any_layer())
t("should_not access any layer, no-layer import", [("r.a","r.d")], arch, lambda r: r.are_named("L1").should_not().access_any_layer())
