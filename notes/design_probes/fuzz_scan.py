import random, sys, shutil, tempfile, collections, os
from pathlib import Path
from rscan import *
from pytestarch import get_evaluable_architecture
rnd = random.Random(int(sys.argv[1]) if len(sys.argv) > 1 else 0)
MODE = sys.argv[2] if len(sys.argv) > 2 else "plain"
NAMES = ["a", "ab", "b", "a_b", "c", "util", "handlers", "h"]
c = collections.Counter(); ex = {}
base = Path(tempfile.mkdtemp(dir="/dev/shm")).resolve()
try:
  for it in range(int(sys.argv[3]) if len(sys.argv) > 3 else 300):
    root = base / f"t{it}" / "proj"; root.mkdir(parents=True)
    dirs = [root]; files = []
    for _ in range(rnd.randint(1, 5)):
        d = rnd.choice(dirs) / rnd.choice(NAMES)
        if d.exists() or d.with_suffix(".py").exists() or len(d.relative_to(root).parts) > 4: continue
        d.mkdir(); dirs.append(d)
        if rnd.random() < .7: (d / "__init__.py").write_text(""); files.append(d / "__init__.py")
    for _ in range(rnd.randint(2, 8)):
        f = rnd.choice(dirs) / (rnd.choice(NAMES) + ".py")
        if f.exists() or f.with_suffix("").exists(): continue
        f.write_text(""); files.append(f)
    def nm(p):
        rel = p.relative_to(root); return "proj" if str(rel) == "." else "proj." + ".".join(rel.with_suffix("").parts)
    allmods = [nm(p) for p in dirs + files]
    EXT = ["os", "os.path", "logging.handlers", "xml.etree.ElementTree", "projx.y", "proj_ext", "proj.missing", "third.handlers", "third.h"]
    for f in files:
        lines = []
        me = nm(f)
        for _ in range(rnd.randint(0, 4)):
            kind = rnd.random()
            t = rnd.choice(allmods)
            if kind < .35: lines.append(f"import {t}")
            elif kind < .55 and "." in t:
                p, n = t.rsplit(".", 1); lines.append(f"from {p} import {n}")
            elif kind < .65: lines.append(f"from {t} import something")
            elif kind < .8:
                depth = len(me.split(".")) - 1
                lv = rnd.randint(1, depth)
                a = me.split(".")[:-lv]
                # pick target under anchor
                cands = [m for m in allmods if m.startswith(".".join(a) + ".")]
                if cands:
                    tt = rnd.choice(cands)[len(".".join(a)) + 1:]
                    if "." in tt and rnd.random() < .5:
                        p, n = tt.rsplit(".", 1); lines.append(f"from {'.' * lv}{p} import {n}")
                    elif rnd.random() < .5: lines.append(f"from {'.' * lv}{tt} import thing")
                    else:
                        if "." in tt: p, n = tt.rsplit(".", 1); lines.append(f"from {'.' * lv}{p} import {n}")
                        else: lines.append(f"from {'.' * lv} import {tt}")
            else: lines.append(f"import {rnd.choice(EXT)}")
        f.write_text("\n".join(lines) + "\n")
    mp = rnd.choice(dirs)
    kw = {}; rkw = {}
    if MODE == "limit":
        k = rnd.randint(1, 3); kw["level_limit"] = k; rkw["limit"] = k
    if MODE == "ext":
        kw["exclude_external_libraries"] = False; rkw["exclude_ext"] = False
        if rnd.random() < .6:
            pats = tuple(rnd.sample(["*handlers", "os", "os*", "*.h", "proj*", "xml.etree", "third*", "logging"], rnd.randint(1, 2)))
            kw["external_exclusions"] = pats; rkw["ext_excl"] = pats
    if MODE == "excl":
        pool = ["*" + p.name for p in dirs[1:] + files] + ["*/" + p.name for p in dirs[1:]] + [str(p) for p in files] + [str(p) + "*" for p in dirs[1:]] + ["*" + p.name + "*" for p in dirs[1:]]
        pats = tuple(rnd.sample(pool, min(len(pool), rnd.randint(1, 2))))
        kw["exclusions"] = pats; rkw["excl"] = pats
    else:
        kw["exclusions"] = (); kw["regex_exclusions"] = ()
    try:
        ev = get_evaluable_architecture(str(root), str(mp), **kw)
    except Exception as e:
        c["EXC " + type(e).__name__] += 1; ex.setdefault("EXC " + type(e).__name__, (str(e), kw, [(str(f.relative_to(root)), f.read_text()) for f in files])); continue
    ref = rscan(root, mp, **rkw)
    mm, em, mi, ei = compare(ref, actual(ev))
    if mm: c["missing-mods"] += 1; ex.setdefault("missing-mods", (sorted(mm), kw, str(mp.relative_to(root))))
    if em: c["extra-mods"] += 1; ex.setdefault("extra-mods", (sorted(em), kw, str(mp.relative_to(root))))
    if mi: c["missing-imps"] += 1; ex.setdefault("missing-imps", (sorted(mi), kw, str(mp.relative_to(root)), [(str(f.relative_to(root)), f.read_text()) for f in files if nm(f) in {a for a, b in mi}]))
    if ei: c["extra-imps"] += 1; ex.setdefault("extra-imps", (sorted(ei), kw, str(mp.relative_to(root)), [(str(f.relative_to(root)), f.read_text()) for f in files if nm(f) in {a for a, b in ei}]))
    if not (mm or em or mi or ei): c["ok"] += 1
    shutil.rmtree(root.parent)
finally:
    shutil.rmtree(base)
for k, v in c.items(): print(v, k, ex.get(k, ""))
