import random, sys, collections, re
from model import *
rnd = random.Random(int(sys.argv[1]) if len(sys.argv)>1 else 7)
TREE = ["r", "r.a", "r.a.x", "r.a.y", "r.b", "r.b.x", "r.b.x.p", "r.c", "r.d", "r.d.z"]
c = collections.Counter(); ex = {}
def verdict(ev, verb, direction, exc, subs, objs):
    try:
        return run(mk_rule(verb, direction, exc, subs, objs), ev)[0]
    except Exception as e:
        return "EXC:" + type(e).__name__
def note(key, *info):
    c[key] += 1
    if key not in ex: ex[key] = info
for it in range(15000):
    mods = TREE
    k = rnd.randint(0, 7)
    cand = [(a, b) for a in mods for b in mods if a != b and not is_anc(a,b)]
    imps = set(rnd.sample(cand, k))
    ev = build(mods, imps)
    def pick(n):
        kind = rnd.choice(["named", "sub"])
        pool = [m for m in mods if (kind == "named" or any(is_anc(m, z) for z in mods))]
        return [(kind, m) for m in rnd.sample(pool, min(n, len(pool)))]
    s = pick(1); o = pick(1)
    rel = related(s[0][1], o[0][1])
    tag = "rel" if rel else "unrel"
    # duality
    for verb in ["should", "should_not"]:
        v1 = verdict(ev, verb, "import", False, s, o); v2 = verdict(ev, verb, "be", False, o, s)
        if v1 != v2: note(("duality", verb, tag, s[0][0], o[0][0]), sorted(imps), s, o, v1, v2)
    # negation
    for direction in ["import", "be"]:
        for exc in [False, True]:
            v1 = verdict(ev, "should", direction, exc, s, o); v2 = verdict(ev, "should_not", direction, exc, s, o)
            if isinstance(v1,bool) and isinstance(v2,bool):
                if v1 == v2: note(("negation", direction, exc, tag, s[0][0], o[0][0]), sorted(imps), s, o, v1, v2)
            else: note(("neg-exc", direction, exc, tag, v1, v2), sorted(imps), s, o)
            # decomposition
            vo = verdict(ev, "should_only", direction, exc, s, o)
            va = verdict(ev, "should", direction, exc, s, o); vb = verdict(ev, "should_not", direction, not exc, s, o)
            if all(isinstance(x,bool) for x in (vo,va,vb)) and vo != (va and vb): note(("decomp", direction, exc, tag, s[0][0], o[0][0]), sorted(imps), s, o, vo, va, vb)
    # anything alias
    for direction, meth in [("import","import_anything"),("be","be_imported_by_anything")]:
        r = Rule().modules_that(); r = r.are_named(s[0][1]) if s[0][0]=="named" else r.are_sub_modules_of(s[0][1])
        try:
            v1 = run(getattr(r.should_not(), meth)(), ev)[0]
        except Exception as e: v1 = "EXC:"+type(e).__name__
        v2 = verdict(ev, "should_not", direction, True, s, s)
        if v1 != v2: note(("anything", direction, s[0][0]), sorted(imps), s, v1, v2)
    # monotonicity: add an edge between unrelated modules
    extra = rnd.choice([e for e in cand if e not in imps and not related(*e)])
    ev2 = build(mods, imps | {extra})
    for direction in ["import","be"]:
        for exc in [False, True]:
            a1 = verdict(ev, "should", direction, exc, s, o); a2 = verdict(ev2, "should", direction, exc, s, o)
            if a1 is True and a2 is not True: note(("mono-should", direction, exc, tag), sorted(imps), extra, s, o)
            b1 = verdict(ev, "should_not", direction, exc, s, o); b2 = verdict(ev2, "should_not", direction, exc, s, o)
            if b1 is False and b2 is not False: note(("mono-shouldnot", direction, exc, tag), sorted(imps), extra, s, o)
for k, v in sorted(c.items(), key=lambda kv: -kv[1]): print(v, k, ex[k])
print("done")
