from model import *
ev = build(["r","r.a","r.b","r.c"], [("r.a","r.b")])
for subj in (["r.a","r.b"], ["r.a"], ["r.b"]):
    print(subj, run(Rule().modules_that().are_named(subj).should_not().import_anything(), ev), run(Rule().modules_that().are_named(subj).should_not().be_imported_by_anything(), ev))
# rule reuse
r = Rule().modules_that().are_named("r.a").should_not().import_anything()
print(run(r, ev), run(r, ev), str(r))
