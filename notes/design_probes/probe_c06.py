from pytestarch.diagram_extension.diagram_parser import PumlParser
from pathlib import Path
def t(name, text):
    p = Path("/tmp/probe/x.puml"); p.write_text(text)
    try:
        r = PumlParser().parse(p); print(name, "->", sorted(r.all_modules), {k: sorted(v) for k, v in sorted(r.dependencies.items())})
    except Exception as e: print(name, "EXC", type(e).__name__, e)
t("basic", "@startuml\n[A] --> [B]\n[B] -> [C]\n[C] <-- [D]\n[D] <- [E]\n[E] -uses-> [F]\n[F] <-uses- [G]\n@enduml")
t("alias then name", "@startuml\n[Alpha] as a\n[Beta] as b\na --> b\n[Alpha] --> [Gamma]\n@enduml")
t("alias after use", "@startuml\na --> b\n[Alpha] as a\n[Beta] as b\n@enduml")
t("component forms", "@startuml\ncomponent A\ncomponent [B]\ncomponent [C] as c\n[D]\nA --> c\n@enduml")
t("bare names", "@startuml\nA --> B\n@enduml")
t("dotted", "@startuml\n[src.a.b] --> [src.c]\n@enduml")
t("dotted decl", "@startuml\n[src.a.b] as x\ncomponent src.c\nx --> [src.d]\n@enduml")
t("noise", "hello\n@startuml\n[A] --> [B]\n@enduml\nbye [X] --> [Y]")
t("no tags", "[A] --> [B]")
t("indent", "@startuml\n  [A] --> [B]\n\t[C] --> [D]\n@enduml")
t("same dependor alias/name", "@startuml\n[Alpha] as a\na --> [B]\n[Alpha] --> [C]\n@enduml")
t("trailing ws", "@startuml\n[A] --> [B]  \n[C] --> [D]\n@enduml")
t("alias with trailing ws", "@startuml\n[Alpha] as a \na --> [B]\n@enduml")
t("empty", "@startuml\n@enduml")
t("multi arrow dash", "@startuml\n[A] ---> [B]\n[A] ..> [C]\n@enduml")
t("space names", "@startuml\n[My Comp] as mc\nmc --> [B]\n@enduml")
