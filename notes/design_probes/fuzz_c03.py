import random, sys, collections, re
from model import *
rnd = random.Random(5)
TREE = ["r", "r.a", "r.a.x", "r.a.y", "r.b", "r.b.x", "r.b.x.p", "r.c", "r.d", "r.d.z"]
c = collections.Counter()
def expected(mods, imps, verb, direction, exc, subs, objs, inside_parent):
    pos=set(); neg=set()
    Oset = set().union(*[S(o, mods) for o in objs])
    for s in subs:
        Ss = S(s, mods); inside=set(Ss)
        if s[0]=="sub" and inside_parent: inside.add(s[1])
        def E(o):
            So = S(o, mods)
            if direction == "import": return {(a,b) for a,b in imps if a in Ss and b in So}
            return {(a,b) for a,b in imps if a in So and b in Ss}
        if direction == "import": oth = {(a,b) for a,b in imps if a in Ss and b not in inside and b not in Oset}
        else: oth = {(a,b) for a,b in imps if b in Ss and a not in inside and a not in Oset}
        forb_edge = (verb=="should_not" and not exc) or (verb=="should_only" and exc)
        forb_oth = (verb=="should_not" and exc) or (verb=="should_only" and not exc)
        req_edge = verb in ("should","should_only") and not exc
        req_oth = verb in ("should","should_only") and exc
        if forb_edge:
            for o in objs: pos |= E(o)
        if forb_oth: pos |= oth
        if req_edge:
            miss = frozenset(o for o in objs if not E(o))
            if miss: neg.add((s, miss, False))
        if req_oth and not oth: neg.add((s, frozenset(objs), True))
    return pos, neg
def parse(msg, direction):
    pos=set(); neg=set()
    for line in msg.split("\n"):
        m = re.fullmatch(r'"([^"]+)" (imports|is imported by) "([^"]+)"\.', line)
        if m:
            a,b = m.group(1), m.group(3)
            pos.add((a,b) if m.group(2)=="imports" else (b,a)); continue
        m = re.fullmatch(r'(Sub modules of )?"([^"]+)" (does not import|do not import|is not imported by|are not imported by) (any module that is not )?(.*)\.', line)
        assert m, line
        s = ("sub" if m.group(1) else "named", m.group(2))
        objs = frozenset(("sub" if o.startswith("a sub module of ") else "named", o.split('"')[1]) for o in m.group(5).split(", "))
        neg.add((s, objs, bool(m.group(4))))
    return pos, neg
shown=0
for it in range(40000):
    mods = TREE
    k = rnd.randint(0, 8)
    cand = [(a, b) for a in mods for b in mods if a != b]
    cand = [(a,b) for a,b in cand if not (is_anc(a,b) and b.count(".")==a.count(".")+1)]
    imps = set(rnd.sample(cand, k))
    verb = rnd.choice(["should", "should_only", "should_not"]); direction = rnd.choice(["import", "be"]); exc = rnd.random() < .5
    def pick(n, avoid):
        kind = rnd.choice(["named", "sub"])
        pool = [m for m in mods if m != "r" and all(not related(m, x) for x in avoid) and (kind == "named" or any(is_anc(m, z) for z in mods))]
        out = []
        for _ in range(n):
            pool2 = [m for m in pool if all(not related(m, x) for x in out)]
            if not pool2: break
            out.append(rnd.choice(pool2))
        return [(kind, m) for m in out]
    subs = pick(rnd.randint(1, 3), [])
    if not subs: continue
    objs = pick(rnd.randint(1, 3), [s[1] for s in subs])
    if not objs: continue
    ev = build(mods, imps)
    got, msg = run(mk_rule(verb, direction, exc, subs, objs), ev)
    e1 = expected(mods, imps, verb, direction, exc, subs, objs, False)
    e2 = expected(mods, imps, verb, direction, exc, subs, objs, True)
    if e1 != e2: c["amb"]+=1; continue
    if got: 
        c["pass"]+=1
        assert e1==(set(),set()), (e1)
        continue
    p = parse(msg, direction)
    if p != e1:
        c[("DISC", verb, direction, exc)] += 1
        if shown<6:
            shown+=1; print(verb,direction,exc,subs,objs,sorted(imps)); print(msg); print("exp",e1)
    else: c["ok"]+=1
for k, v in c.most_common(): print(v, k)
