import random, collections
from pathlib import Path
from model import *
from pytestarch import DiagramRule
rnd = random.Random(11)
c = collections.Counter(); ex = {}
for it in range(6000):
    n = rnd.randint(2, 5)
    comps = [f"c{i}" for i in range(n)]
    base = "r.p"
    mods = ["r", base] + [f"{base}.{x}" for x in comps] + [f"{base}.{comps[0]}.s", f"{base}.by", "r.out"]
    arrows = {(a, b) for a in comps for b in comps if a != b and rnd.random() < .3}
    isolated = [x for x in comps if not any(x in e for e in arrows)]
    text = "@startuml\n" + "".join(f"[{x}]\n" for x in isolated) + "".join(f"[{a}] --> [{b}]\n" for a, b in sorted(arrows)) + "@enduml\n"
    p = Path("/tmp/probe/c07.puml"); p.write_text(text)
    # imports: mostly conforming, with perturbation
    full = lambda x: f"{base}.{x}"
    imps = {(full(a), full(b)) for a, b in arrows}
    cand = [(a, b) for a in mods for b in mods if a != b and not related(a, b)]
    for _ in range(rnd.choice([0, 0, 1, 1, 2])):
        e = rnd.choice(cand)
        if e in imps and rnd.random() < .5: imps.discard(e)
        else: imps.add(e)
    if rnd.random() < .3 and imps: imps.discard(rnd.choice(sorted(imps)))
    ev = build(mods, imps)
    only = rnd.random() < .5
    def S(x): return {m for m in mods if m == full(x) or m.startswith(full(x) + ".")}
    def imp(a, b): return any(x in S(a) and y in S(b) for x, y in imps)
    exp = True
    nviol = 0
    for a in comps:
        for b in comps:
            if a == b: continue
            if ((a, b) in arrows) != imp(a, b): exp = False
    if only:
        for a in comps:
            tg = {b for x, b in arrows if x == a}
            if tg:
                allowed = S(a).union(*[S(b) for b in tg])
                if any(x in S(a) and y not in allowed for x, y in imps): exp = False
    try:
        DiagramRule(should_only_rule=only).from_file(p).with_base_module(base).assert_applies(ev); got = True; msg = None
    except AssertionError as e: got = False; msg = str(e)
    if got != exp:
        k = ("DISC", only, got, exp); c[k] += 1; ex.setdefault(k, (text, sorted(imps), msg))
    else: c["ok", got] += 1
for k, v in c.items(): print(v, k, ex.get(k, ""))
