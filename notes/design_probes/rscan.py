"""Prototype reference scanner (probe only)."""
import ast, os, re
from pathlib import Path

def anc(m):
    p = m.split("."); return [".".join(p[:i]) for i in range(1, len(p))]

def glob_sem(pat, s):
    a = pat.startswith("*"); b = pat.endswith("*")
    t = pat[(1 if a else 0):(len(pat) - 1 if b else len(pat))]
    if len(pat) == 1 and a: t = ""
    if a and b: return t in s
    if a: return s.endswith(t)
    if b: return s.startswith(t)
    return s == t

def rscan(root, mp, excl=(), regex_excl=(), exclude_ext=True, limit=None, ext_excl=(), regex_ext_excl=()):
    root = Path(root); mp = Path(mp)
    def excluded(s): return any(glob_sem(p, s) for p in excl) or any(re.match(p, s) for p in regex_excl)
    def ext_excluded(s): return any(glob_sem(p, s) for p in ext_excl) or any(re.match(p, s) for p in regex_ext_excl)
    def name(p):
        rel = p.relative_to(root)
        if str(rel) == ".": return root.name
        return root.name + "." + ".".join(rel.with_suffix("").parts)
    scanned = set(); files = []
    def walk(d):
        if excluded(str(d)): return
        scanned.add(name(d))
        for e in sorted(d.iterdir()):
            if e.is_dir(): walk(e)
            elif e.suffix == ".py" and not excluded(str(e)):
                scanned.add(name(e)); files.append(e)
    walk(mp)
    mods = set(scanned)
    for m in scanned: mods.update(anc(m))
    prefix = ".".join(mp.parent.relative_to(root.parent).parts) if mp != root else None
    def res_abs(t):
        if prefix is not None and f"{prefix}.{t}" in scanned: return f"{prefix}.{t}"
        return t
    imps = set(); stmts = []
    for f in files:
        me = name(f)
        for node in ast.walk(ast.parse(f.read_text())):
            if isinstance(node, ast.Import):
                for al in node.names: imps.add((me, res_abs(al.name)))
            elif isinstance(node, ast.ImportFrom):
                if node.level == 0: base = res_abs(node.module)
                else:
                    a = anc(me)[-node.level]
                    base = a + ("." + node.module if node.module else "")
                for al in node.names:
                    c = f"{base}.{al.name}"
                    imps.add((me, c if c in scanned else base))
    imps = {(a, b) for a, b in imps if a != b}
    mpname = name(mp)
    def internal(m): return m == mpname or m.startswith(mpname + ".")
    out = set()
    if exclude_ext:
        for a, b in imps:
            if b in mods and internal(b): out.add((a, b))
            elif b in mods: out.add((a, b) + ("anc",))  # ancestor of module path: exempt
    else:
        for a, b in imps:
            if b in scanned or internal(b):
                if b in mods: out.add((a, b))
                continue
            if ext_excluded(b) or any(ext_excluded(x) for x in anc(b)): continue
            out.add((a, b)); mods.add(b); mods.update(anc(b))
    if limit is not None:
        k = len(mpname.split(".")) + limit
        t = lambda m: ".".join(m.split(".")[:k])
        mods = {t(m) for m in mods}
        out = {(t(e[0]), t(e[1])) + e[2:] for e in out if t(e[0]) != t(e[1])}
    return mods, out

def actual(ev):
    g = ev._graph._graph
    return set(g.nodes), {(a, b) for a, b, d in g.edges(data=True) if not d["inherits"]}

def is_anc(a, b): return b.startswith(a + ".")
def compare(ref, act):
    rm, ri = ref; am, ai = act
    exempt = lambda e: is_anc(e[1], e[0])
    req = {e[:2] for e in ri if len(e) == 2 and not exempt(e)}
    allowed = {e[:2] for e in ri}
    miss = req - ai; extra = {e for e in ai if e not in allowed and not exempt(e)}
    return rm - am, am - rm, miss, extra
