import random, sys, collections, re
from model import *
rnd = random.Random(int(sys.argv[1]) if len(sys.argv)>1 else 7)
TREE = ["r", "r.a", "r.a.x", "r.a.y", "r.b", "r.b.x", "r.b.x.p", "r.c", "r.d", "r.d.z", "r.ab"]
c = collections.Counter(); ex = {}
def V(fn):
    try: return run(fn(), ev)
    except Exception as e: return ("EXC:" + type(e).__name__, str(e))
def note(key, *info):
    c[key] += 1
    if key not in ex: ex[key] = info
M = {("import", False): "import_modules_that", ("import", True): "import_modules_except_modules_that", ("be", False): "be_imported_by_modules_that", ("be", True): "be_imported_by_modules_except_modules_that"}
for it in range(15000):
    mods = TREE
    k = rnd.randint(0, 7)
    cand = [(a, b) for a in mods for b in mods if a != b and not is_anc(a,b)]
    imps = set(rnd.sample(cand, k))
    ev = build(mods, imps)
    verb = rnd.choice(["should", "should_only", "should_not"]); direction = rnd.choice(["import", "be"]); exc = rnd.random() < .5
    # batch = conjunction
    ns = rnd.randint(1,3); no = rnd.randint(1,3)
    kind_s = rnd.choice(["named","sub"]); kind_o = rnd.choice(["named","sub"])
    pool = lambda kind: [m for m in mods if kind=="named" or any(is_anc(m,z) for z in mods)]
    subs = [(kind_s, m) for m in rnd.sample(pool(kind_s), ns)]; objs = [(kind_o, m) for m in rnd.sample(pool(kind_o), no)]
    whole = V(lambda: mk_rule(verb, direction, exc, subs, objs))
    parts = [V(lambda s=s: mk_rule(verb, direction, exc, [s], objs)) for s in subs]
    if all(isinstance(p[0], bool) for p in parts) and isinstance(whole[0], bool):
        if whole[0] != all(p[0] for p in parts): note(("batch-subj", verb, direction, exc), sorted(imps), subs, objs, whole[0], [p[0] for p in parts])
    else: note(("batch-subj-exc", whole[0], tuple(p[0] for p in parts)), sorted(imps), subs, objs)
    if not exc and verb in ("should","should_not"):
        parts = [V(lambda o=o: mk_rule(verb, direction, exc, subs, [o])) for o in objs]
        if all(isinstance(p[0], bool) for p in parts) and isinstance(whole[0], bool):
            if whole[0] != all(p[0] for p in parts): note(("batch-obj", verb, direction), sorted(imps), subs, objs, whole[0], [p[0] for p in parts])
    # regex
    pats = [r"^r\.a$", r"^r\.a", r"^r\.(a|b)$", r"^r\.[ab]\.x", r"^r\.b\.x(\.p)?$", r"^r\.zzz$", r"^r\.(c|d)", r"^r\.a\.", r".*\.x$"]
    ps = rnd.choice(pats); po = rnd.choice(pats)
    es = [m for m in mods if re.match(ps, m)]; eo = [m for m in mods if re.match(po, m)]
    side = rnd.choice(["s","o","both"])
    def mkre():
        r = Rule().modules_that()
        r = r.have_name_matching(ps) if side in ("s","both") else r.are_named(subs[0][1])
        r = getattr(getattr(r, verb)(), M[(direction, exc)])()
        return r.have_name_matching(po) if side in ("o","both") else r.are_named(objs[0][1])
    def mkex():
        r = Rule().modules_that()
        r = r.are_named(es) if side in ("s","both") else r.are_named(subs[0][1])
        r = getattr(getattr(r, verb)(), M[(direction, exc)])()
        return r.are_named(eo) if side in ("o","both") else r.are_named(objs[0][1])
    empty = (side in ("s","both") and not es) or (side in ("o","both") and not eo)
    a = V(mkre)
    if empty:
        if a[0] != "EXC:ImpossibleMatch": note(("regex-nomatch", a[0]), ps, po, side)
    else:
        b = V(mkex)
        if a[0] != b[0]: note(("regex-verdict", verb, direction, exc, side), sorted(imps), ps, po, a[0], b[0])
        elif a[1] != b[1]: note(("regex-msg", verb, direction, exc, side), sorted(imps), ps, po, a[1], b[1])
for k, v in sorted(c.items(), key=lambda kv: -kv[1]): print(v, k, ex[k])
print("done")
