from pytestarch import LayeredArchitecture, LayerRule
def t(name, fn):
    try:
        r = fn(); print(f"{name:55s} OK {r}")
    except Exception as e: print(f"{name:55s} {type(e).__name__}: {str(e)[:90]}")
L = LayeredArchitecture
t("dup list/list", lambda: L().layer("A").containing_modules(["m"]).layer("B").containing_modules(["m"]))
t("dup str/str", lambda: L().layer("A").containing_modules("mod").layer("B").containing_modules("mod"))
t("dup list/str", lambda: L().layer("A").containing_modules(["mod"]).layer("B").containing_modules("mod"))
t("dup str/list", lambda: L().layer("A").containing_modules("mod").layer("B").containing_modules(["mod"]))
t("single-char false dup", lambda: L().layer("A").containing_modules(["m"]).layer("B").containing_modules("mod"))
t("dup within one list", lambda: L().layer("A").containing_modules(["m", "m"]))
t("dup layer name", lambda: L().layer("A").containing_modules(["m"]).layer("A"))
t("layer before modules", lambda: L().layer("A").layer("B"))
t("modules before layer", lambda: L().containing_modules(["m"]))
t("modules twice", lambda: L().layer("A").containing_modules(["m"]).containing_modules(["n"]))
t("regex then same-name module", lambda: L().layer("A").have_modules_with_names_matching("m").layer("B").containing_modules(["m"]))
t("module then same regex", lambda: L().layer("A").containing_modules(["m"]).layer("B").have_modules_with_names_matching("m"))
t("empty list", lambda: L().layer("A").containing_modules([]).layer("B"))
t("with_layer", lambda: L().with_layer().layer("A").containing_modules("x").with_layer().layer("B").containing_modules(["y","z"]))
t("tuple", lambda: L().layer("A").containing_modules(("x","y")))
a = L().layer("A").containing_modules("x").layer("B").containing_modules(["y","z"]).layer("C").have_modules_with_names_matching("q.*")
print(str(a), a["A"], a["B"], a["C"])
