from pytestarch import get_evaluable_architecture
def show(name, **kw):
    try:
        ev = get_evaluable_architecture("/tmp/probe/p8/proj", "/tmp/probe/p8/proj", **kw)
    except Exception as e:
        print(name, "EXC", type(e).__name__, e); return
    g = ev._graph._graph
    print(name); print("  mods", sorted(g.nodes)); print("  nimps", len([1 for a,b,d in g.edges(data=True) if not d["inherits"]]))
show("none", exclusions=())
show("*tests", exclusions=("*tests",))
show("*tests*", exclusions=("*tests*",))
show("*/a", exclusions=("*/a",))
show("*/a*", exclusions=("*/a*",))
show("*x.py", exclusions=("*x.py",))
show("*_test.py", exclusions=("*_test.py",))
show("*we+ird.py", exclusions=("*we+ird.py",))
show("full path", exclusions=("/tmp/probe/p8/proj/main.py",))
show("prefix*", exclusions=("/tmp/probe/p8/proj/t*",))
show("regex", exclusions=(), regex_exclusions=(r".*/tests$",))
show("regex unanchored-start", exclusions=(), regex_exclusions=(r"tests",))
show("*proj", exclusions=("*proj",))
