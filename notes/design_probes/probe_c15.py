from model import *
from pytestarch import LayerRule, LayeredArchitecture, DiagramRule
from pathlib import Path
import hashlib
mods = ["r"] + [f"r.m{i}" for i in range(8)] + [f"r.m{i}.s{j}" for i in range(8) for j in range(2)]
import random
rnd = random.Random(1)
cand = [(a,b) for a in mods for b in mods if a!=b and not related(a,b)]
imps = set(rnd.sample(cand, 60))
ev = build(mods, imps)
out = []
def V(fn):
    try: fn(); return "PASS"
    except AssertionError as e: return str(e)
    except Exception as e: return type(e).__name__+str(e)
arch = LayeredArchitecture().layer("A").have_modules_with_names_matching(r"^r\.m[01]$").layer("B").containing_modules(["r.m2","r.m3"]).layer("C").have_modules_with_names_matching(r"^r\.m[45]")
for verb in ["should","should_only","should_not"]:
    for acc in ["access_layers_that","be_accessed_by_layers_that","access_layers_except_layers_that","be_accessed_by_layers_except_layers_that"]:
        out.append(V(lambda: getattr(getattr(LayerRule().based_on(arch).layers_that().are_named("A"), verb)(), acc)().are_named(["B","C"]).assert_applies(ev)))
        out.append(V(lambda: getattr(getattr(Rule().modules_that().are_named(["r.m0","r.m1","r.m6.s0"]), verb)(), acc.replace("access_layers","import_modules").replace("be_accessed_by_layers","be_imported_by_modules").replace("layers_that","modules_that"))().have_name_matching(r"^r\.m[2345]").assert_applies(ev)))
p = Path("/tmp/probe/c15.puml"); p.write_text("@startuml\n" + "".join(f"[m{i}] --> [m{(i*3+1)%8}]\n[m{i}] --> [m{(i*5+2)%8}]\n" for i in range(8)) + "@enduml")
out.append(V(lambda: DiagramRule().from_file(p).with_base_module("r").assert_applies(ev)))
print(hashlib.sha256("\n##\n".join(out).encode()).hexdigest()[:16], len(out), sum(1 for o in out if o!="PASS"))
