import random, sys, collections, re
from model import *
from pytestarch import LayerRule, LayeredArchitecture
rnd = random.Random(int(sys.argv[1]) if len(sys.argv)>1 else 3)
TOP = ["r.a","r.b","r.c","r.d","r.e","r.f","r.ab"]
mods = ["r"] + TOP + ["r.a.x","r.a.y","r.b.x","r.c.z","r.f.q","r.f.q.w"]
c = collections.Counter(); ex = {}
ACC = {("import",False):"access_layers_that",("be",False):"be_accessed_by_layers_that",("import",True):"access_layers_except_layers_that",("be",True):"be_accessed_by_layers_except_layers_that"}
for it in range(12000):
    k = rnd.randint(0, 7)
    cand = [(a, b) for a in mods for b in mods if a != b and not related(a,b)]
    imps = set(rnd.sample(cand, k))
    ev = build(mods, imps)
    nl = rnd.randint(2,4)
    pool = TOP[:]; rnd.shuffle(pool)
    layers = {}
    for i in range(nl):
        n = rnd.randint(1,2); layers[f"L{i}"] = [pool.pop() for _ in range(n) if pool]
    kinds = {L: rnd.choice(["named","regex"]) for L in layers}
    if "--noregex-unmentioned" in sys.argv: pass
    arch = LayeredArchitecture()
    for L, ms in layers.items():
        arch = arch.layer(L)
        if kinds[L]=="named": arch = arch.containing_modules(ms if len(ms)>1 or rnd.random()<.5 else ms[0])
        else: arch = arch.have_modules_with_names_matching("^(" + "|".join(re.escape(m) for m in ms) + ")$")
    names = list(layers); rnd.shuffle(names)
    subj = names[0]; no = rnd.randint(1, min(2, len(names)-1)); objs = names[1:1+no]
    verb = rnd.choice(["should","should_only","should_not"]); direction = rnd.choice(["import","be"]); exc = rnd.random()<.5
    alias = rnd.random() < .1
    SL = lambda L: {m for x in layers[L] for m in mods if m==x or is_anc(x,m)}
    Ss = SL(subj); Oset = set().union(*[SL(o) for o in objs]) if not alias else set()
    def E(o):
        So = SL(o)
        return {(a,b) for a,b in imps if (a in Ss and b in So if direction=="import" else a in So and b in Ss)}
    oth = {(a,b) for a,b in imps if (a in Ss and b not in Ss and b not in Oset if direction=="import" else b in Ss and a not in Ss and a not in Oset)}
    if alias: verb, exc = "should_not", True
    if not exc:
        exp = all(E(o) for o in objs) if verb=="should" else (all(E(o) for o in objs) and not oth) if verb=="should_only" else not any(E(o) for o in objs)
    else:
        exp = bool(oth) if verb=="should" else (bool(oth) and not any(E(o) for o in objs)) if verb=="should_only" else not oth
    try:
        r = getattr(LayerRule().based_on(arch).layers_that().are_named(subj), verb)()
        if alias: r = r.access_any_layer() if direction=="import" else r.be_accessed_by_any_layer()
        else: r = getattr(r, ACC[(direction,exc)])().are_named(objs if len(objs)>1 or rnd.random()<.5 else objs[0])
        r.assert_applies(ev); got=True; msg=None
    except AssertionError as e: got=False; msg=str(e)
    except Exception as e: got="EXC:"+type(e).__name__; msg=str(e)
    unmentioned_regex = any(kinds[L]=="regex" for L in layers if L!=subj and L not in objs) or (alias and any(kinds[L]=="regex" for L in layers if L!=subj))
    if got != exp:
        key=(verb,direction,exc,alias,got,exp,"unmentioned-regex" if unmentioned_regex else ""); c[key]+=1; ex.setdefault(key,(layers,kinds,subj,objs,sorted(imps),msg))
    else: c["ok"]+=1
for k,v in sorted(c.items(), key=lambda kv:-kv[1] if kv[0]!="ok" else 0): print(v,k,ex.get(k,""))
