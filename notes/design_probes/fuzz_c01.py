import random, sys, collections
from model import *
rnd = random.Random(int(sys.argv[1]) if len(sys.argv) > 1 else 0)
TREE = ["r", "r.a", "r.a.x", "r.a.y", "r.b", "r.b.x", "r.b.x.p", "r.c", "r.d", "r.d.z"]
disc = collections.Counter(); n = 0; amb = 0
examples = {}
for it in range(20000):
    mods = TREE
    k = rnd.randint(0, 8)
    cand = [(a, b) for a in mods for b in mods if a != b and not is_anc(a, b)]
    imps = set(rnd.sample(cand, k))
    verb = rnd.choice(["should", "should_only", "should_not"]); direction = rnd.choice(["import", "be"]); exc = rnd.random() < .5
    def pick(n, avoid):
        kind = rnd.choice(["named", "sub"])
        pool = [m for m in mods if m != "r" and all(not related(m, x) for x in avoid) and (kind == "named" or any(is_anc(m, z) for z in mods))]
        out = []
        for _ in range(n):
            pool2 = [m for m in pool if all(not related(m, x) for x in out)]
            if not pool2: break
            out.append(rnd.choice(pool2))
        return [(kind, m) for m in out]
    subs = pick(rnd.randint(1, 2), [])
    if not subs: continue
    objs = pick(rnd.randint(1, 2), [s[1] for s in subs])
    if not objs: continue
    ev = build(mods, imps)
    try:
        got, msg = run(mk_rule(verb, direction, exc, subs, objs), ev)
    except Exception as e:
        got, msg = "EXC " + type(e).__name__, str(e)
    r1 = ref(mods, imps, verb, direction, exc, subs, objs, False)
    r2 = ref(mods, imps, verb, direction, exc, subs, objs, True)
    n += 1
    if r1 != r2:
        amb += 1
        continue
    if got != r1:
        key = (verb, direction, exc, subs[0][0], objs[0][0], got, r1)
        disc[key] += 1
        examples.setdefault(key, (sorted(imps), subs, objs, msg))
print("n", n, "amb", amb, "disc", sum(disc.values()))
for k, v in disc.most_common(): print(v, k, examples[k])
