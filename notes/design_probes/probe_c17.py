from model import *
import pytestarch.eval_structure.networkxgraph as ng
cap = {}
def fake(graph, **kw): cap.clear(); cap.update(kw); cap["_g"] = graph
ng.draw_networkx = fake
def t(name, mods, aliases, **kw):
    ev = build(mods, [])
    try:
        ev.visualize(aliases=aliases, **kw); print(name, {k: v for k, v in sorted(cap["labels"].items())}, {k: v for k, v in cap.items() if k not in ("labels", "_g", "pos")}, "pos" in cap)
    except Exception as e: print(name, type(e).__name__, e)
t("doc", ["r", "r.s", "r.s.t", "r.o"], {"r": "R", "r.s": "sub"})
t("prefix sibling", ["r", "r.a", "r.ab", "r.a.x"], {"r.a": "A"})
t("dot in name regex", ["r", "r.a", "rxa", "r.a.b"], {"r.a": "A"})
t("alias w/ metachar", ["r", "r.a"], {"r.a": r"\1[x]"})
t("missing", ["r", "r.a"], {"r.zz": "Z"})
t("kwargs", ["r", "r.a"], {"r": "R"}, node_size=10, spacing=0.5, with_labels=True)
t("underscore", ["r", "r.a_b", "r.a"], {"r.a": "A"})
ev = build(["r","r.a"], []); ev.visualize(node_color="red"); print({k: v for k, v in cap.items() if k != "_g"})
