from pytestarch import get_evaluable_architecture
def show(name, mp, **kw):
    try:
        ev = get_evaluable_architecture("/tmp/probe/p4/proj", mp, **kw)
    except Exception as e:
        print(name, "EXC", type(e).__name__, e); return
    g = ev._graph._graph
    print(name); print("  mods", sorted(g.nodes)); print("  imps", sorted((a,b) for a,b,d in g.edges(data=True) if not d["inherits"]))
show("full", "/tmp/probe/p4/proj")
show("a", "/tmp/probe/p4/proj/a")
show("a/b", "/tmp/probe/p4/proj/a/b")
show("a/b limit1", "/tmp/probe/p4/proj/a/b", level_limit=1)
show("full limit1", "/tmp/probe/p4/proj", level_limit=1)
show("full limit2", "/tmp/probe/p4/proj", level_limit=2)
show("outside", "/tmp/probe/p10")
