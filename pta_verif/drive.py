"""Helpers the workloads use to drive the real API (through the monitored boundary)."""
from __future__ import annotations

import random

from . import boot  # noqa: F401
from .monitors import HUB, graph_state, truth_from_state
from .refmodel.names import ancestors, close_under_ancestors, is_ancestor, related

IMPORT_METHOD = {
    ("import", False): "import_modules_that",
    ("import", True): "import_modules_except_modules_that",
    ("be", False): "be_imported_by_modules_that",
    ("be", True): "be_imported_by_modules_except_modules_that",
}
ANY_METHOD = {"import": "import_anything", "be": "be_imported_by_anything"}
FILTER_METHOD = {"named": "are_named", "sub": "are_sub_modules_of", "regex": "have_name_matching"}


def build(mods, imps, level_limit=None, check=True):
    """Driver-built evaluable; the generating relation is registered as ground truth and
    the constructed graph is compared with it (so graph construction is under test)."""
    from pytestarch.eval_structure.evaluable_graph import EvaluableArchitectureGraph
    from pytestarch.eval_structure.networkxgraph import NetworkxGraph
    from pytestarch.eval_structure_generation.file_import.import_types import AbsoluteImport

    ev = EvaluableArchitectureGraph(
        NetworkxGraph(list(mods), [AbsoluteImport(a, b) for a, b in imps], level_limit)
    )
    if check and level_limit is None:
        tm = close_under_ancestors(mods)
        ti = frozenset(imps)
        st = graph_state(ev)
        gm, gi = truth_from_state(st)
        if gm != tm or gi != ti:
            HUB.violation(
                "C04",
                "graph-construction",
                "graph built from (modules, imports) differs from them",
                {"mods": sorted(mods), "imps": sorted(imps), "extra_nodes": sorted(gm - tm), "missing_nodes": sorted(tm - gm), "extra_imports": sorted(gi - ti), "missing_imports": sorted(ti - gi)},
            )
        HUB.register_truth(ev, tm, ti)
    if check and (len(mods) * 31 + len(imps)) % 3 == 0:
        hostile_reads(ev, mods)
    if (len(mods) * 17 + len(imps) * 5) % 6 == 0:
        ev = copy_of(ev, "deepcopy" if len(imps) % 2 else "pickle")
    return ev


def copy_of(ev, how):
    """An architecture that went through copy.deepcopy or a pickle round trip (handed to a worker process, cached on
    disk between two runs, copied by a fixture): the copy IS the architecture - same modules, same imports, same hierarchy,
    flattened the same way - and is what the workload goes on with."""
    import copy as _copy
    import pickle as _pickle

    try:
        c = _copy.deepcopy(ev) if how == "deepcopy" else _pickle.loads(_pickle.dumps(ev))
    except Exception as e:  # noqa: BLE001
        HUB.violation("C15", f"architecture-cannot-be-copied:{how}:{type(e).__name__}", f"{how} of an evaluable architecture raised {type(e).__name__}: {e}", {})
        return ev
    a, b = graph_state(ev), graph_state(c)
    HUB.acc.count("architectures_replaced_by_a_copy:" + how)
    if a != b:
        owner = getattr(HUB, "copy_owner", None) or "C15"
        HUB.violation(owner, f"copied-architecture-differs:{how}", f"a {how} copy of an architecture has other modules / imports / hierarchy edges than its original", {"nodes_diff": sorted((a[0] ^ b[0]) if a and b else [])[:12], "edges_diff": sorted(map(str, (a[1] ^ b[1]) if a and b else []))[:12]})
    t = HUB.truth.get(id(ev))
    if t is not None:
        HUB.register_truth(c, t[1], t[2])
    return c


class Recycler:
    """A long-lived process builds an architecture, uses it, drops it and builds the next one (a test session over several
    projects, a watch mode, a server).  CPython hands the memory of a dead object to the next object of the same size, so
    the new architecture very often has the id() its dead predecessor had.  To make that the rule rather than a matter of
    luck, the inner graph of the next architecture is built FIRST, then the old architecture is dropped, and the new
    wrapper object is created straight afterwards.  `same_address` counts how often the address was indeed re-used."""

    def __init__(self):
        self.ev = None
        self.last_id = None
        self.same_address = 0
        self.built = 0

    def next(self, mods, imps, level_limit=None):
        from pytestarch.eval_structure.evaluable_graph import EvaluableArchitectureGraph
        from pytestarch.eval_structure.networkxgraph import NetworkxGraph
        from pytestarch.eval_structure_generation.file_import.import_types import AbsoluteImport

        g = NetworkxGraph(list(mods), [AbsoluteImport(a, b) for a, b in imps], level_limit)
        self.ev = None  # the predecessor dies here (the workload must not hold on to it either)
        self.ev = EvaluableArchitectureGraph(g)
        del g
        self.built += 1
        if id(self.ev) == self.last_id:
            self.same_address += 1
            HUB.acc.count("architectures_built_at_the_address_of_a_dead_predecessor")
        self.last_id = id(self.ev)
        if level_limit is None:
            HUB.register_truth(self.ev, close_under_ancestors(mods), frozenset(imps))
        return self.ev

    def drop(self):
        self.ev = None


def hostile_reads(ev, mods):
    """What a caller may legitimately do before evaluating rules: use the read accessors of the architecture and do
    whatever it likes with THEIR results (they are the caller's objects).  Every third driver-built architecture gets
    this treatment; the monitors then judge the rules as always."""
    try:
        from pytestarch.eval_structure.evaluable_architecture import ModuleNameFilter

        ms = ev.modules
        if isinstance(ms, list):
            del ms[::2]
        names = [m for m in mods if "." in m][:4]
        fs = [ModuleNameFilter(name=n) for n in names]
        for acc_name in ("get_dependencies", "any_dependencies_from_dependents_to_modules_other_than_dependent_upons", "any_other_dependencies_on_dependent_upons_than_from_dependents"):
            try:
                from .budget import StepBudgetExceeded, step_budget

                with step_budget(3_000_000):
                    res = getattr(ev, acc_name)(fs[:2], fs[2:] or fs[:1])
            except StepBudgetExceeded as e:
                HUB.violation("C01", "query-does-not-terminate", f"{acc_name} exhausted its step budget ({e})", {"mods": sorted(mods)})
                continue
            except Exception:  # noqa: BLE001
                continue
            if isinstance(res, dict):
                for v in res.values():
                    if isinstance(v, list):
                        v.clear()
                res.clear()
        HUB.acc.count("architectures_with_hostile_accessor_reads")
    except Exception as e:  # noqa: BLE001  (renamed internals: nothing to be hostile with)
        HUB.acc.count("hostile_reads_unavailable")
        HUB.acc.hist("hostile_reads_error", type(e).__name__)


class StrSub(str):
    """A trivial str subclass (what a 'NewType'-like wrapper or a path library hands out)."""


def typed_names(names, how):
    """The same names as instances of another str type: 'strsub' - a trivial subclass; 'enum' - members of a str-mixin Enum
    (class Modules(str, Enum): CORE = "app.core"), which compare, hash and slice like their value but FORMAT as
    'Modules.CORE' since Python 3.11/3.12; 'strenum' - members of an enum.StrEnum."""
    import enum

    if how == "strsub":
        return [StrSub(n) for n in names]
    uniq = list(dict.fromkeys(names))
    cls = enum.Enum("Modules", {f"M{i}": n for i, n in enumerate(uniq)}, type=str) if how == "enum" else enum.StrEnum("Modules", {f"M{i}": n for i, n in enumerate(uniq)})
    by_value = {m.value: m for m in cls}
    return [by_value[n] for n in names]


def _arg(names, as_list=None):
    """as_list: falsy -> a single name is given as a plain string; True -> always a list; 'tuple' / 'generator' / 'map'
    -> the batch in that container (a Sequence, or a one-shot iterable the library has to read exactly once)."""
    if as_list == "tuple":
        return tuple(names)
    if as_list == "generator":
        return (n for n in list(names))
    if as_list == "map":
        return map(str, list(names))
    if as_list in ("strsub", "enum", "strenum"):
        t = typed_names(list(names), as_list)
        return t if len(t) > 1 else t[0]
    if len(names) > 1 or as_list:
        return list(names)
    return names[0]


def mk_rule(cfg, list_form=None, retarget=None, copied=None):
    """Builds the rule through the real fluent API.  retarget=(evaluable, decoy_name): the rule prefix is first
    completed with a decoy object and applied (outcome ignored), then the SAME object gets its real objects by
    calling the filter method again - the documented way of re-using a kept prefix; the last specification counts."""
    from pytestarch import Rule

    if retarget is not None and not cfg.get("anything") and cfg["objs"] and cfg["objs"][0][0] != "regex":
        ev, decoy = retarget
        r = _prefix(cfg, list_form)
        try:
            getattr(r, FILTER_METHOD["named"])(decoy)
            r.assert_applies(ev)
        except Exception:  # noqa: BLE001  (whatever the decoy rule says)
            pass
        okind = cfg["objs"][0][0]
        HUB.acc.count("rules_retargeted_after_application")
        return getattr(r, FILTER_METHOD[okind])(_arg([n for _, n in cfg["objs"]], list_form))

    if copied is not None and not cfg.get("anything") and cfg["objs"] and cfg["objs"][0][0] != "regex" and list_form not in ("generator", "map"):
        # a kept rule prefix is COPIED (copy.deepcopy, or a pickle round trip - what a test that parametrises over rule
        # prefixes or hands them to a worker process does); original and copy are then finished differently.  Each is
        # its own rule: what was specified on one must not show in the other.
        import copy as _copy
        import pickle as _pickle

        how, decoy = copied
        p = _prefix(cfg, list_form)
        try:
            c = _copy.deepcopy(p) if how == "deepcopy" else _pickle.loads(_pickle.dumps(p))
        except Exception as e:  # noqa: BLE001  (no property promises that rule objects can be copied: no copy, no claim)
            HUB.acc.count("rule_prefix_copies_that_raised")
            HUB.acc.hist("rule_prefix_copy_error", f"{how}:{type(e).__name__}")
            c = None
        if c is None:
            return getattr(p, FILTER_METHOD[cfg["objs"][0][0]])(_arg([n for _, n in cfg["objs"]], list_form))
        okind = cfg["objs"][0][0]
        onames = [n for _, n in cfg["objs"]]
        HUB.acc.count("rules_finished_on_a_copy_of_a_kept_prefix:" + how)
        if len(decoy) % 2:
            getattr(p, FILTER_METHOD["named"])(decoy)
            return getattr(c, FILTER_METHOD[okind])(_arg(onames, list_form))
        getattr(c, FILTER_METHOD["named"])(decoy)
        return getattr(p, FILTER_METHOD[okind])(_arg(onames, list_form))

    if list_form == "keywords":
        # every argument passed by its documented parameter name (are_named(names=...), have_name_matching(regex=...))
        import inspect

        def kw(obj, meth, value):
            f = getattr(obj, meth)
            pname = next(iter(inspect.signature(f).parameters))
            return f(**{pname: value})

        r = Rule().modules_that()
        skind = cfg["subs"][0][0]
        snames = [n for _, n in cfg["subs"]]
        r = kw(r, FILTER_METHOD[skind], snames[0] if (skind == "regex" or len(snames) == 1) else list(snames))
        r = getattr(r, cfg["verb"])()
        if cfg.get("anything"):
            return getattr(r, ANY_METHOD[cfg["dir"]])()
        r = getattr(r, IMPORT_METHOD[(cfg["dir"], cfg["exc"])])()
        okind = cfg["objs"][0][0]
        onames = [n for _, n in cfg["objs"]]
        return kw(r, FILTER_METHOD[okind], onames[0] if (okind == "regex" or len(onames) == 1) else list(onames))

    if list_form == "statements":
        # the rule written as a sequence of statements on ONE name (rule = Rule(); rule.modules_that(); ...): whatever the
        # fluent methods return is ignored, the object that was created first is the rule
        rule = Rule()
        rule.modules_that()
        skind = cfg["subs"][0][0]
        snames = [n for _, n in cfg["subs"]]
        getattr(rule, FILTER_METHOD[skind])(snames[0] if skind == "regex" else _arg(snames, True))
        getattr(rule, cfg["verb"])()
        if cfg.get("anything"):
            getattr(rule, ANY_METHOD[cfg["dir"]])()
            return rule
        getattr(rule, IMPORT_METHOD[(cfg["dir"], cfg["exc"])])()
        okind = cfg["objs"][0][0]
        onames = [n for _, n in cfg["objs"]]
        getattr(rule, FILTER_METHOD[okind])(onames[0] if okind == "regex" else _arg(onames, True))
        return rule

    r = Rule().modules_that()
    skind = cfg["subs"][0][0]
    snames = [n for _, n in cfg["subs"]]
    if skind == "regex":
        r = r.have_name_matching(snames[0])
    else:
        r = getattr(r, FILTER_METHOD[skind])(_arg(snames, list_form))
    r = getattr(r, cfg["verb"])()
    if cfg.get("anything"):
        return getattr(r, ANY_METHOD[cfg["dir"]])()
    r = getattr(r, IMPORT_METHOD[(cfg["dir"], cfg["exc"])])()
    okind = cfg["objs"][0][0]
    onames = [n for _, n in cfg["objs"]]
    if okind == "regex":
        return r.have_name_matching(onames[0])
    return getattr(r, FILTER_METHOD[okind])(_arg(onames, list_form))


def rule_steps(cfg, list_form=None):
    """The fluent calls that build the rule, as (method name, args) pairs; the first one creates the object."""
    steps = [("Rule", ()), ("modules_that", ())]
    for side in ("subs", "objs"):
        if side == "objs":
            steps.append((cfg["verb"], ()))
            if cfg.get("anything"):
                steps.append((ANY_METHOD[cfg["dir"]], ()))
                break
            steps.append((IMPORT_METHOD[(cfg["dir"], cfg["exc"])], ()))
        kind = cfg[side][0][0]
        names = [n for _, n in cfg[side]]
        steps.append(("have_name_matching", (names[0],)) if kind == "regex" else (FILTER_METHOD[kind], (_arg(names, list_form),)))
    return steps


def mk_rules_interleaved(cfgs, order, list_form=None):
    """Several rules under construction at the same time: `order` lists rule indices, index i once per fluent call of
    rule i (the first occurrence creates the object).  Returns the finished rule objects."""
    from pytestarch import Rule

    steps = [rule_steps(c, list_form) for c in cfgs]
    cur, pos = [None] * len(cfgs), [0] * len(cfgs)
    for i in order:
        name, args = steps[i][pos[i]]
        cur[i] = Rule() if name == "Rule" else getattr(cur[i], name)(*args)
        pos[i] += 1
    assert all(pos[i] == len(steps[i]) for i in range(len(cfgs)))
    return cur


def random_interleaving(rnd, cfgs, list_form=None):
    order = [i for i, c in enumerate(cfgs) for _ in rule_steps(c, list_form)]
    rnd.shuffle(order)
    return order


def _prefix(cfg, list_form=None):
    """subject + verb + import type, no object yet."""
    from pytestarch import Rule

    r = Rule().modules_that()
    skind = cfg["subs"][0][0]
    snames = [n for _, n in cfg["subs"]]
    r = r.have_name_matching(snames[0]) if skind == "regex" else getattr(r, FILTER_METHOD[skind])(_arg(snames, list_form))
    r = getattr(r, cfg["verb"])()
    return getattr(r, IMPORT_METHOD[(cfg["dir"], cfg["exc"])])()


_RUNS = [0]


def run(rule, ev):
    """-> (outcome, message) with outcome in pass/fail/error:<Type>.  Before every fifth application the caller LOOKS at
    the rule (str, repr, the read-only properties) and at the architecture (str, repr, modules): looking changes nothing."""
    _RUNS[0] += 1
    if _RUNS[0] % 5 == 0:
        for look in (str, repr, lambda r: getattr(r, "rule_subjects", None), lambda r: getattr(r, "rule_objects", None), lambda r: getattr(r, "layer_mapping", None)):
            try:
                look(rule)
            except Exception:  # noqa: BLE001  (an unfinished or 'anything' rule may refuse to be printed)
                pass
        for look in (str, repr, lambda e: list(e.modules)):
            try:
                look(ev)
            except Exception:  # noqa: BLE001
                pass
        HUB.acc.count("rules_and_architectures_looked_at_before_an_application")
    try:
        rule.assert_applies(ev)
        return "pass", None
    except AssertionError as e:
        return "fail", str(e)
    except Exception as e:  # noqa: BLE001
        return f"error:{type(e).__name__}", str(e)


def lines(msg):
    return frozenset(msg.split("\n")) if msg is not None else None


# -- random module trees / relations -------------------------------------------------

LEAF_NAMES = ["a", "b", "c", "d", "e", "x", "y", "z", "p", "q", "util", "core", "__init__", "ab", "a_b", "r", "m1", "v2"]
# legal but unusual identifiers: non-ASCII first letters (sort after every ASCII name), combining marks and U+00B7 (identifier
# characters that are not \w / word characters), names differing only in case or in the zero padding of a number,
# names starting with "py" / containing "init"
UNUSUAL_NAMES = ["größe", "überblick", "данные", "ข้อมูล", "a·b", "Models", "models", "m01", "Ab", "py", "pyx", "init_x", "a-b", "c++"]  # the last two: directory names that are no identifiers ("-" sorts below ".", "+" is a regex metacharacter)
LEAF_NAMES = LEAF_NAMES + UNUSUAL_NAMES
COLLIDING = ["a", "ab", "a_b", "Ab", "a·b", "a-b", "m1", "m01", "models", "Models", "py", "pyx", "c", "c++"]
TWINS = {"m1": "m01", "m01": "m1", "models": "Models", "Models": "models", "ab": "Ab", "Ab": "ab", "a·b": "a", "py": "pyx"}


def random_tree(rnd: random.Random, n_min=8, n_max=14, depth=4, root="r", names=LEAF_NAMES):
    mods = [root]
    target = rnd.randint(n_min, n_max)
    tries = 0
    while len(mods) < target and tries < 200:
        tries += 1
        parent = rnd.choice(mods)
        if parent.count(".") >= depth:
            continue
        if parent.endswith("__init__"):
            continue
        fam = [n for n in COLLIDING if n in names]
        m = parent + "." + (rnd.choice(fam) if len(fam) >= 3 and rnd.random() < 0.3 else rnd.choice(names))
        if m not in mods:
            mods.append(m)
            twin = TWINS.get(m.rsplit(".", 1)[1])
            if twin and twin in names and rnd.random() < 0.5 and parent + "." + twin not in mods:
                mods.append(parent + "." + twin)  # siblings that differ only in case / zero padding / a non-word character
    return mods


def candidate_imports(mods, allow_root=True, ancestor_imports=True):
    out = []
    for a in mods:
        for b in mods:
            if a == b:
                continue
            if is_ancestor(a, b) and b.count(".") == a.count(".") + 1:
                continue  # parent -> direct child collides with the hierarchy edge (ambiguity iv)
            if not ancestor_imports and related(a, b):
                continue
            if not allow_root and ("." not in a or "." not in b):
                continue
            out.append((a, b))
    return out


def random_imports(rnd, mods, k_max=12, **kw):
    cand = candidate_imports(mods, **kw)
    k = min(len(cand), rnd.randint(0, k_max))
    return sorted(rnd.sample(cand, k))


def pick_unrelated(rnd, mods, n, avoid=(), kind="named", root="r"):
    """Up to n names, pairwise unrelated and unrelated to 'avoid'."""
    pool = [m for m in mods if m != root and all(not related(m, x) for x in avoid)]
    if kind == "sub":
        with_desc = [m for m in pool if any(is_ancestor(m, z) for z in mods)]
        if with_desc and rnd.random() < 0.85:
            pool = with_desc
    out = []
    for _ in range(n):
        p2 = [m for m in pool if all(not related(m, x) for x in out)]
        if not p2:
            break
        out.append(rnd.choice(p2))
    return out


__all__ = ["build", "mk_rule", "mk_rules_interleaved", "random_interleaving", "rule_steps", "run", "lines", "random_tree", "random_imports", "candidate_imports", "pick_unrelated", "ancestors"]
