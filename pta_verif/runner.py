"""./check <ID> [--tier quick|thorough] [--replay file]

Plans shards for one property, runs each shard in its own subprocess (watchdog per
shard; a fired watchdog is *inconclusive*, never a verdict), merges what the monitors
observed, applies the per-property floors, classifies violations against
KNOWN_FINDINGS.txt, writes evidence/<ID>.json and replay files.

Exit codes: 0 held on everything observed, 1 violation (one VIOLATION line per new
mechanism), 2 inconclusive (no VIOLATION line).
"""
from __future__ import annotations

import argparse
import importlib
import json
import os
import shutil
import subprocess
import sys
import tempfile
import time
from concurrent.futures import ThreadPoolExecutor

from . import boot
from .core import Acc, jsonable

VERIF = boot.VERIF
KNOWN_FILE = os.path.join(VERIF, "KNOWN_FINDINGS.txt")


def load_known() -> dict[str, str]:
    known = {}
    if os.path.exists(KNOWN_FILE):
        for line in open(KNOWN_FILE):
            line = line.strip()
            if not line.startswith("known:"):
                continue  # 'fixed:' lines and comments suppress nothing
            fields = dict(f.split("=", 1) for f in line.split()[1:3] if "=" in f)
            if "property" in fields and "key" in fields:
                known[f"{fields['property']}:{fields['key']}"] = line.split(None, 3)[3] if len(line.split(None, 3)) > 3 else ""
    return known


# Interpreter / environment profiles: part of every check's workload is repeated in interpreters that are configured
# differently from the default one - the properties speak about every execution, and what the library does must not depend
# on whether assert statements are compiled in, whether warnings are errors, where the process was started or whether byte
# code is written.  (The hash seed is C15's own subject and handled there; a non-UTF-8 locale by envprobe.py.)
PROFILES = {
    "optimized": {"flags": ["-O"], "what": "python -O: assert statements and __debug__ blocks are compiled away"},
    "warnings-are-errors": {"flags": [], "what": "every warning attributed to a pytestarch module is an exception"},
    "dev-mode-elsewhere": {"flags": ["-X", "dev", "-B"], "cwd": "scratch", "what": "python -X dev -B started in an empty directory"},
    "ascii-stdio": {"flags": [], "env": {"PYTHONIOENCODING": "ascii", "STAGE": "prod", "COLUMNS": "40", "NO_COLOR": "1", "TERM": "dumb"}, "what": "PYTHONIOENCODING=ascii (stdout / stderr cannot show non-ASCII names), a narrow dumb terminal, extra environment variables"},
}


def profile_variants(specs: list, tier: str, mod=None) -> list:
    """Copies of two shards per profile: the last of the property's own shards that has a size ('n') and the first
    end-to-end / composed-scan shard, at half size.  A property module may name profiles under which ALL of its shards are
    repeated (ALL_SHARDS_UNDER_PROFILES: the cheap, exhaustive call-sequence sweeps of C13 and C16 under python -O)."""
    own = [s for s in specs if s.get("kind") not in ("e2e", "combos") and isinstance(s.get("n"), int)]
    extra = [s for s in specs if s.get("kind") in ("e2e", "combos")]
    pref = [s for s in own if s.get("kind") in ("random", "randomised", "trees", "misspelt", "histories", "layers", "scans", "pairs", "diagram")]
    picked = (pref[-1:] or own[-1:]) + extra[:1]
    if not picked:
        picked = specs[-1:]
    out = []
    for name in PROFILES:
        for s in (specs if name in getattr(mod, "ALL_SHARDS_UNDER_PROFILES", ()) else picked):
            c = dict(s)
            if isinstance(c.get("n"), int):
                c["n"] = max(1, c["n"] // 2)
            c["_profile"] = name
            c.pop("seed", None)
            out.append(c)
    return out


def prop_module(pid: str):
    return importlib.import_module(f"pta_verif.props.{pid.lower()}")


def run_shard_inprocess(pid: str, spec: dict) -> Acc:
    boot.assert_tree()
    from . import monitors

    hub = monitors.install()
    acc = Acc()
    hub.reset(acc)
    mod = prop_module(pid)
    hub.scan_crash_owner = pid if pid in ("C02", "C04", "C08", "C09", "C10", "C14", "C15") else "C04"
    hub.copy_owner = pid
    from .budget import ShardAbort

    profile = spec.get("_profile")
    if profile == "warnings-are-errors":
        import warnings

        warnings.filterwarnings("error", module=r"pytestarch(\.|$)")
        # ... and so is a DeprecationWarning that is attributed to the caller (this harness): the library announces its
        # deprecated aliases itself and lets the call proceed, whatever filters the application has set
        warnings.filterwarnings("error", category=DeprecationWarning, module=r"pta_verif(\.|$)")
        os.environ["PTA_WARNINGS_ARE_ERRORS"] = "1"
    if profile == "optimized" and __debug__:
        acc.mark_inconclusive("profile 'optimized' requested but the interpreter runs with assertions enabled")

    try:
        _run_shard(pid, spec, acc, mod)
    except ShardAbort as e:
        acc.count("shards_stopped_after_exhausted_step_budgets")
        acc.flags["stopped_early"] = f"{e}"
    except Exception as e:  # noqa: BLE001  keep what the monitors recorded before the shard died
        import traceback

        acc.mark_inconclusive(f"shard ({spec.get('kind')}) crashed: {type(e).__name__}: {e} | " + traceback.format_exc()[-600:].replace("\n", " / "))
    acc.flags["contracts_backend"] = getattr(hub, "contracts_backend", "n/a")
    if profile:
        acc.counters[f"shards_under_profile:{profile}"] += 1
        acc.counters[f"evaluations_under_profile:{profile}"] += acc.evaluations
    return acc


def _run_shard(pid, spec, acc, mod):
    if spec.get("kind") == "e2e":
        from . import e2e

        e2e.run_shard(spec, acc)
    elif spec.get("kind") == "combos":
        from . import combos

        combos.run_shard(pid, spec, acc)
    else:
        mod.run_shard(spec, acc)


def _spawn(pid: str, spec: dict, workdir: str, idx: int, timeout: float):
    spec_path = os.path.join(workdir, f"spec{idx}.json")
    out_path = os.path.join(workdir, f"out{idx}.json")
    with open(spec_path, "w") as f:
        json.dump(spec, f)
    env = dict(os.environ)
    env.setdefault("PYTHONHASHSEED", "0")
    env["PYTHONPATH"] = VERIF + os.pathsep + env.get("PYTHONPATH", "")
    env["PTA_SCRATCH"] = os.path.join(workdir, f"S{idx}")
    os.makedirs(env["PTA_SCRATCH"], exist_ok=True)
    prof = PROFILES.get(spec.get("_profile") or "", {})
    cmd = [sys.executable, "-X", "faulthandler"] + prof.get("flags", []) + ["-m", "pta_verif.runner", "--run-shard", pid, spec_path, out_path]
    env.update(prof.get("env", {}))
    cwd = VERIF
    if prof.get("cwd") == "scratch":
        cwd = os.path.join(workdir, f"CWD{idx}")
        os.makedirs(cwd, exist_ok=True)
    t0 = time.time()
    try:
        p = subprocess.run(cmd, env=env, cwd=cwd, capture_output=True, text=True, timeout=timeout)
    except subprocess.TimeoutExpired:
        return idx, None, f"shard {idx} ({spec.get('kind')}) hit the {timeout:.0f}s watchdog", time.time() - t0
    if p.returncode != 0 or not os.path.exists(out_path):
        tail = (p.stderr or p.stdout or "")[-1500:]
        return idx, None, f"shard {idx} ({spec.get('kind')}) crashed rc={p.returncode}: {tail}", time.time() - t0
    with open(out_path) as f:
        return idx, json.load(f), None, time.time() - t0


def _repo_suite(pid: str, workdir: str, timeout: float):
    """Thorough tier: the repository's own tests re-run with the monitors armed (pytest plugin);
    monitor hits keyed with this property's id are merged into the verdict."""
    report = os.path.join(workdir, "repo_suite.json")
    env = dict(os.environ, PTA_VERIF_MONITORS="1", PTA_PLUGIN_REPORT=report, PYTHONHASHSEED="0")
    env["PYTHONPATH"] = VERIF + os.pathsep + os.path.join(boot.REPO, "src") + os.pathsep + env.get("PYTHONPATH", "")
    cmd = [sys.executable, "-m", "pytest", "-p", "pta_verif.pytest_plugin", "-q", "-p", "no:cacheprovider", "--timeout=900", "--deselect", "tests/test_architecture.py"]
    t0 = time.time()
    try:
        subprocess.run(cmd, env=env, cwd=boot.REPO, capture_output=True, text=True, timeout=timeout)
    except subprocess.TimeoutExpired:
        return None, "repository test-suite under monitors hit the watchdog", time.time() - t0
    if not os.path.exists(report):
        return None, "repository test-suite under monitors produced no report", time.time() - t0
    with open(report) as f:
        rep = json.load(f)
    acc = Acc()
    for k, v in rep["counters"].items():
        acc.counters["repo_suite_" + k] = v
    for k, v in rep["violations"].items():
        acc.violation_counts[k] = v["count"]
        acc.violations[k].append(v["first"])
    for w in rep["inconclusive"]:
        acc.mark_inconclusive("repo suite: " + w)
    return acc.dump(), None, time.time() - t0


def main(argv=None) -> int:
    ap = argparse.ArgumentParser()
    ap.add_argument("pid", nargs="?")
    ap.add_argument("--tier", default=os.environ.get("VERIF_TIER") or "quick", choices=["quick", "thorough"])
    ap.add_argument("--replay")
    ap.add_argument("--run-shard", nargs=3, metavar=("PID", "SPEC", "OUT"))
    ap.add_argument("--jobs", type=int, default=int(os.environ.get("VERIF_JOBS") or min(16, os.cpu_count() or 4)))
    ap.add_argument("--inprocess", action="store_true", help="debugging: run shards in this process")
    args = ap.parse_args(argv)

    if args.run_shard:
        pid, spec_path, out_path = args.run_shard
        with open(spec_path) as f:
            spec = json.load(f)
        acc = run_shard_inprocess(pid, spec)
        with open(out_path, "w") as f:
            json.dump(acc.dump(), f)
        return 0

    pid = args.pid.upper()
    seed = int(os.environ.get("VERIF_SEED") or 0)
    mod = prop_module(pid)
    t0 = time.time()

    if args.replay:
        return replay(pid, mod, args.replay)

    tree_file = boot.assert_tree()
    specs = mod.plan(args.tier, seed)
    from . import e2e

    if pid in e2e.WEIGHTS:
        specs = specs + e2e.plan_shards(pid, args.tier)  # end-to-end soak on scanned architectures, all monitors armed
    from . import combos

    if pid in combos.PIDS:
        specs = specs + combos.plan_shards(pid, args.tier)  # scans under composed options
    specs = specs + profile_variants(specs, args.tier, mod)
    for i, s in enumerate(specs):
        s.setdefault("seed", seed * 1000003 + i)
        s["tier"] = args.tier
    timeout = getattr(mod, "SHARD_TIMEOUT", {"quick": 600, "thorough": 3600})[args.tier]
    if os.environ.get("PTA_SHARD_TIMEOUT"):
        timeout = float(os.environ["PTA_SHARD_TIMEOUT"])  # the mutation audit uses a short watchdog (a hanging mutant is not a verdict)
    acc = Acc()
    # upper-case/digit scratch prefix: path-matching exclusion patterns built from (lower-case)
    # tree names can then never match the scratch directory itself
    workdir = os.path.join(boot.scratch_root(), f"PTA-{pid}-{os.getpid()}")
    shutil.rmtree(workdir, ignore_errors=True)
    os.makedirs(workdir)
    shard_walls = []
    try:
        if args.inprocess:
            for s in specs:
                os.environ["PTA_SCRATCH"] = workdir
                acc.merge(run_shard_inprocess(pid, s).dump())
        else:
            with ThreadPoolExecutor(max_workers=max(1, args.jobs)) as ex:
                futs = [ex.submit(_spawn, pid, s, workdir, i, timeout) for i, s in enumerate(specs)]
                suite = ex.submit(_repo_suite, pid, workdir, timeout) if args.tier == "thorough" else None
                for fu in futs:
                    idx, dump, err, wall = fu.result()
                    shard_walls.append(round(wall, 1))
                    if err:
                        acc.mark_inconclusive(err)
                    else:
                        acc.merge(dump)
                if suite is not None:
                    dump, err, wall = suite.result()
                    shard_walls.append(round(wall, 1))
                    if err:
                        acc.mark_inconclusive(err)
                    else:
                        acc.merge(dump)
    finally:
        shutil.rmtree(workdir, ignore_errors=True)

    for why in (mod.floors(acc, args.tier) or []) + (e2e.floor(acc, args.tier) if pid in e2e.WEIGHTS else []) + (combos.floor(pid, acc, args.tier) if pid in combos.PIDS else []):
        acc.mark_inconclusive(why)

    for name in PROFILES:
        if acc.counters[f"evaluations_under_profile:{name}"] == 0:
            acc.mark_inconclusive(f"nothing was evaluated under the interpreter profile '{name}'")
    acc.flags["interpreter_profiles"] = {k: v["what"] for k, v in PROFILES.items()}

    known = load_known()
    new, kf = [], []
    prefix = pid + ":"
    foreign = {}
    for key, lst in sorted(acc.violations.items()):
        if not key.startswith(prefix):
            foreign[key] = acc.violation_counts[key]
            continue
        if key in known:
            kf.append((key, lst))
        else:
            new.append((key, lst))

    out_lines = []
    for key, lst in kf:
        out_lines.append(f"KNOWN-FINDING: property={pid} key={key.split(':', 1)[1]} {lst[0]['what']} (seen {acc.violation_counts[key]}x)")
    replay_dir = os.path.join(os.environ.get("PTA_REPLAY_DIR") or os.path.join(VERIF, "replays"), pid)
    for key, lst in new:
        os.makedirs(replay_dir, exist_ok=True)
        safe = "".join(ch if ch.isalnum() or ch in "-_." else "_" for ch in key.split(":", 1)[1])[:80]
        path = os.path.join(replay_dir, f"{safe}.json")
        with open(path, "w") as f:
            json.dump({"property": pid, "key": key, "tier": args.tier, "seed": seed, "count": acc.violation_counts[key], "instances": lst}, f, indent=1, sort_keys=True)
        out_lines.append(f"VIOLATION property={pid} replay={path}")
        out_lines.append(f"  mechanism={key} seen={acc.violation_counts[key]}x: {lst[0]['what']}")

    verdict = "violated" if new else ("inconclusive" if acc.inconclusive else "held")
    wall = time.time() - t0
    write_evidence(pid, mod, args.tier, seed, acc, verdict, wall, kf, new, foreign, len(specs), shard_walls, tree_file)
    for line in out_lines:
        print(line)
    if foreign:
        print(f"NOTE: monitors of other properties fired during this workload (reported by their own checks): {foreign}")
    for why in acc.inconclusive:
        print(f"INCONCLUSIVE: property={pid} {why}")
    print(
        f"{pid} {args.tier} seed={seed}: {verdict}; evaluations={acc.evaluations} distinct_nontrivial={len(acc.distinct)} "
        f"shards={len(specs)} wall={wall:.1f}s"
    )
    return 1 if new else (2 if acc.inconclusive else 0)


def write_evidence(pid, mod, tier, seed, acc, verdict, wall, kf, new, foreign, nshards, shard_walls, tree_file):
    cov = {
        "evaluations": acc.evaluations,
        "distinct_nontrivial": len(acc.distinct),
        "rule": mod.RULE,
        "samples": acc.samples,
        "exhaustive": bool(acc.flags.get("exhaustive", False)),
        "exhaustive_subspaces": acc.flags.get("exhaustive_subspaces", ""),
        "counters": dict(sorted(acc.counters.items())),
        "histograms": {k: dict(sorted(v.items())) for k, v in sorted(acc.hists.items())},
        "shards": nshards,
        "shard_wall_s": shard_walls,
        "code_under_observation": tree_file,
    }
    for k, v in acc.flags.items():
        if k not in ("exhaustive", "exhaustive_subspaces"):
            cov[k] = v
    ev = {
        "property_id": pid,
        "tier": tier,
        "seed": seed,
        "level": getattr(mod, "LEVEL", "exploration"),
        "coverage": jsonable(cov),
        "assumptions": list(mod.ASSUMPTIONS),
        "wall_s": round(wall, 2),
        "violations": len(new),
        "verdict": verdict,
        "known_findings": [k for k, _ in kf],
        "new_violation_mechanisms": {k: acc.violation_counts[k] for k, _ in new},
        "foreign_monitor_hits": foreign,
        "inconclusive_reasons": acc.inconclusive,
    }
    evdir = os.environ.get("PTA_EVIDENCE_DIR") or os.path.join(VERIF, "evidence")  # the self-audit redirects it
    os.makedirs(evdir, exist_ok=True)
    path = os.path.join(evdir, f"{pid}.json")
    tmp = path + ".tmp"
    with open(tmp, "w") as f:
        json.dump(ev, f, indent=1, sort_keys=True)
    os.replace(tmp, path)


def replay(pid, mod, path) -> int:
    boot.assert_tree()
    from . import monitors

    hub = monitors.install()
    with open(path) as f:
        rec = json.load(f)
    instances = rec.get("instances") or [rec]
    known = load_known()
    rc = 0
    workdir = os.path.join(boot.scratch_root(), f"PTA-{pid}-R{os.getpid()}")
    os.makedirs(workdir, exist_ok=True)
    os.environ["PTA_SCRATCH"] = workdir
    try:
        for inst in instances:
            acc = Acc()
            hub.reset(acc)
            if isinstance(inst.get("case"), dict) and inst["case"].get("kind") == "e2e":
                from . import e2e

                e2e.replay(inst["case"], acc)
            elif isinstance(inst.get("case"), dict) and inst["case"].get("kind") == "combos":
                from . import combos

                combos.replay(pid, inst["case"], acc)
            else:
                mod.replay(inst["case"], acc)
            keys = [k for k in acc.violations if k.startswith(pid + ":")]
            if not keys:
                print(f"replay: no violation reproduced for {inst.get('key')}")
            for k in keys:
                v = acc.violations[k][0]
                if k in known:
                    print(f"KNOWN-FINDING: property={pid} key={k.split(':', 1)[1]} {v['what']}")
                else:
                    print(f"VIOLATION property={pid} replay={path}")
                    print(f"  mechanism={k}: {v['what']}")
                    print("  witness=" + json.dumps(v["witness"], sort_keys=True)[:2000])
                    rc = 1
    finally:
        shutil.rmtree(workdir, ignore_errors=True)
    return rc


if __name__ == "__main__":
    sys.exit(main())
