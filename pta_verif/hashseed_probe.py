"""Fixed script run in a fresh interpreter per PYTHONHASHSEED (C15 e): 30+ rules whose reports
have many lines, layer rules, a diagram rule and scans (exclude / include mode); prints one JSON
line with per-item outcomes and a digest.  Monitors are NOT installed: this is the bare library."""
from __future__ import annotations

import hashlib
import json
import os
import random
import shutil
import sys
import tempfile

from . import boot

boot.assert_tree()


def main():
    from pathlib import Path

    from pytestarch import DiagramRule, LayeredArchitecture, LayerRule, Rule, get_evaluable_architecture
    from pytestarch.eval_structure.evaluable_graph import EvaluableArchitectureGraph
    from pytestarch.eval_structure.networkxgraph import NetworkxGraph
    from pytestarch.eval_structure_generation.file_import.import_types import AbsoluteImport

    from . import trees
    from .drive import mk_rule, random_imports, random_tree
    from .refmodel import rules as rrule

    rnd = random.Random(12345)  # fixed: the workload must be identical under every hash seed
    items = {}

    def out(rule, ev):
        try:
            rule.assert_applies(ev)
            return ["pass", None]
        except AssertionError as e:
            return ["fail", str(e)]
        except Exception as e:  # noqa: BLE001
            return ["error", type(e).__name__]

    for g in range(3):
        mods = random_tree(rnd, 12, 16, depth=4)
        imps = random_imports(rnd, mods, k_max=25)
        ev = EvaluableArchitectureGraph(NetworkxGraph(list(mods), [AbsoluteImport(a, b) for a, b in imps]))
        names = [m for m in mods if m != "r"]
        for i in range(12):
            kind = rnd.choice(["named", "sub"])
            cfg = {"verb": rnd.choice(rrule.VERBS), "dir": rnd.choice(rrule.DIRS), "exc": rnd.random() < 0.5, "subs": [(kind, s) for s in rnd.sample(names, 3)], "objs": [(kind, o) for o in rnd.sample(names, 3)], "anything": False}
            items[f"g{g}.rule{i}"] = out(mk_rule(cfg), ev)
        items[f"g{g}.any"] = out(Rule().modules_that().are_named(rnd.sample(names, 3)).should_not().import_anything(), ev)
        items[f"g{g}.regex"] = out(Rule().modules_that().have_name_matching(r"r\.[a-z_]+$").should_not().import_modules_that().have_name_matching(r"r\.[a-z_]+\.[a-z_]+$"), ev)
        nested = sorted(m for m in mods if m.count(".") == 2 and any(x.startswith(m + ".") for x in mods))
        if nested:
            inner = nested[0]
            outer = inner.rsplit(".", 1)[0]
            arch_n = LayeredArchitecture().layer("outer").containing_modules([outer]).layer("inner").containing_modules([inner])
            for v in ("should", "should_only", "should_not"):
                items[f"g{g}.nested.{v}"] = out(getattr(LayerRule().based_on(arch_n).layers_that().are_named("inner"), v)().access_layers_that().are_named("outer"), ev)
                items[f"g{g}.nested.{v}.exc"] = out(getattr(LayerRule().based_on(arch_n).layers_that().are_named("outer"), v)().be_accessed_by_layers_except_layers_that().are_named("inner"), ev)
        tops = sorted(m for m in mods if m.count(".") == 1)
        if len(tops) >= 3:
            arch = LayeredArchitecture().layer("A").containing_modules(tops[:1]).layer("B").containing_modules(tops[1:2]).layer("C").have_modules_with_names_matching("^(" + "|".join(t.replace(".", r"\.") for t in tops[2:]) + ")$")
            for v in ("should", "should_only", "should_not"):
                items[f"g{g}.layer.{v}"] = out(getattr(LayerRule().based_on(arch).layers_that().are_named("A"), v)().access_layers_that().are_named(["B", "C"]), ev)
                items[f"g{g}.layer.{v}.exc"] = out(getattr(LayerRule().based_on(arch).layers_that().are_named("C"), v)().be_accessed_by_layers_except_layers_that().are_named("A"), ev)

    # modules whose names differ only in case / zero padding / one non-word character: report lines that compare equal
    # under a lossy sort key must still come in one fixed order
    twins = ["r", "r.b", "r.x", "r.y"] + [f"r.x.{n}" for n in ("Models", "models", "MODELS", "mOdels")] + [f"r.y.{n}" for n in ("m1", "m01", "m001", "M1", "a·b", "a_b", "ab")]
    timps = [(t, "r.b") for t in twins[4:]] + [("r.b", t) for t in twins[4:]]
    evt = EvaluableArchitectureGraph(NetworkxGraph(list(twins), [AbsoluteImport(a, b) for a, b in timps]))
    for v, d in (("should_not", "import_modules_that"), ("should_not", "be_imported_by_modules_that"), ("should_only", "import_modules_except_modules_that")):
        for subj in (["r.x"], ["r.y"], ["r.x", "r.y"], twins[4:8], twins[8:]):
            items[f"twins.{v}.{d}.{len(subj)}.{subj[0]}"] = out(getattr(getattr(Rule().modules_that().are_named(subj), v)(), d)().are_named("r.b"), evt)
    items["twins.any"] = out(Rule().modules_that().are_sub_modules_of(["r.x", "r.y"]).should_not().import_anything(), evt)
    arch_t = LayeredArchitecture().layer("X").containing_modules(["r.x"]).layer("Y").containing_modules(["r.y"]).layer("B").containing_modules(["r.b"])
    items["twins.layer"] = out(LayerRule().based_on(arch_t).layers_that().are_named("B").should_not().access_layers_that().are_named(["X", "Y"]), evt)
    items["twins.layer.be"] = out(LayerRule().based_on(arch_t).layers_that().are_named("B").should_not().be_accessed_by_layers_that().are_named(["X", "Y"]), evt)

    # layer names that differ only in case, listed together in one line of a report
    arch_c = LayeredArchitecture().layer("Data").containing_modules(["r.x"]).layer("data").containing_modules(["r.y"]).layer("DATA").containing_modules(["r.b"])
    for v in ("should", "should_only"):
        items[f"twins.layers.case.{v}"] = out(getattr(LayerRule().based_on(arch_c).layers_that().are_named("DATA"), v)().access_layers_that().are_named(["Data", "data"]), EvaluableArchitectureGraph(NetworkxGraph(list(twins), [])))
        items[f"twins.layers.case.{v}.be"] = out(getattr(LayerRule().based_on(arch_c).layers_that().are_named("DATA"), v)().be_accessed_by_layers_that().are_named(["data", "Data"]), EvaluableArchitectureGraph(NetworkxGraph(list(twins), [])))
    # layer names that only differ in how a number is written, listed in one line; and a regex layer that overlaps layers
    # naming some of its modules explicitly (the message speaks about several layers for one subject layer)
    arch_z = LayeredArchitecture().layer("zone1").containing_modules(["r.x"]).layer("zone01").containing_modules(["r.y"]).layer("zone001").containing_modules(["r.b"])
    for v in ("should", "should_only"):
        items[f"twins.layers.digits.{v}"] = out(getattr(LayerRule().based_on(arch_z).layers_that().are_named("zone001"), v)().access_layers_that().are_named(["zone1", "zone01"]), EvaluableArchitectureGraph(NetworkxGraph(list(twins), [])))
        items[f"twins.layers.digits.{v}.exc"] = out(getattr(LayerRule().based_on(arch_z).layers_that().are_named("zone001"), v)().be_accessed_by_layers_except_layers_that().are_named(["zone01", "zone1"]), EvaluableArchitectureGraph(NetworkxGraph(list(twins), [])))
    ov = ["s", "s.cart", "s.order", "s.stock", "s.user", "s.db", "s.web"]
    ev_ov = EvaluableArchitectureGraph(NetworkxGraph(list(ov), [AbsoluteImport("s.web", "s.db")]))
    arch_o = LayeredArchitecture().layer("alpha").have_modules_with_names_matching(r"s\.(cart|order|stock|user)$").layer("beta").containing_modules(["s.order"]).layer("gamma").containing_modules(["s.stock"]).layer("target").containing_modules(["s.db"])
    for v in ("should", "should_only"):
        items[f"overlap.{v}"] = out(getattr(LayerRule().based_on(arch_o).layers_that().are_named("alpha"), v)().access_layers_that().are_named("target"), ev_ov)
        items[f"overlap.{v}.exc"] = out(getattr(LayerRule().based_on(arch_o).layers_that().are_named("alpha"), v)().be_accessed_by_layers_except_layers_that().are_named("target"), ev_ov)
    # magnitudes: 12 x 12 = 144 violating imports in one rule (and 25 objects missing for one subject)
    many = ["r", "r.s", "r.o", "r.q"] + [f"r.s.m{i}" for i in range(12)] + [f"r.o.t{i}" for i in range(12)] + [f"r.q.u{i:02d}" for i in range(25)]
    mimps = [(f"r.s.m{i}", f"r.o.t{j}") for i in range(12) for j in range(12)]
    evm = EvaluableArchitectureGraph(NetworkxGraph(list(many), [AbsoluteImport(a, b) for a, b in mimps]))
    items["many.should_not"] = out(Rule().modules_that().are_named("r.s").should_not().import_modules_that().are_named("r.o"), evm)
    items["many.should_only"] = out(Rule().modules_that().are_named("r.s").should_only().import_modules_that().are_named("r.q"), evm)
    items["many.be"] = out(Rule().modules_that().are_named("r.o").should_not().be_imported_by_modules_that().are_sub_modules_of("r.s"), evm)
    items["many.missing"] = out(Rule().modules_that().are_named("r.s").should().import_modules_that().are_named([f"r.q.u{i:02d}" for i in range(25)]), evm)
    arch_m = LayeredArchitecture().layer("S").containing_modules(["r.s"]).layer("O").containing_modules(["r.o"]).layer("Q").containing_modules(["r.q"])
    items["many.layer"] = out(LayerRule().based_on(arch_m).layers_that().are_named("S").should_only().access_layers_that().are_named("Q"), evm)

    work = tempfile.mkdtemp(prefix="PTA-HS-", dir=boot.scratch_root())
    os.environ["PTA_SCRATCH"] = work
    try:
        for t in range(3):
            spec = trees.random_project(rnd, depth=3, imports_per_file=(2, 5), externals=0.3)
            root = trees.write_tree(spec)
            for label, kw in (("exclude", {}), ("include", {"exclude_external_libraries": False}), ("include+pattern", {"exclude_external_libraries": False, "external_exclusions": ("os*", "*handlers")}), ("limit", {"level_limit": 1})):
                ev = get_evaluable_architecture(root, root, **kw)
                g = ev._graph._graph
                items[f"scan{t}.{label}"] = [sorted(g.nodes), sorted((a, b, bool(d.get("inherits"))) for a, b, d in g.edges(data=True))]
                # layer rules on every kind of scanned architecture (the order in which such an architecture lists its
                # modules is an implementation detail - with externals kept it comes out of a set): layers defined by
                # packages, imports between their sub modules
                pk = sorted(n for n in g.nodes if n.count(".") == 1 and n.startswith("proj.") and any(x.startswith(n + ".") for x in g.nodes))
                if len(pk) >= 2:
                    arch_s = LayeredArchitecture().layer("first").containing_modules(pk[:1]).layer("second").containing_modules(pk[1:2])
                    if len(pk) >= 3:
                        arch_s = arch_s.layer("rest").containing_modules(pk[2:])
                    for v in ("should", "should_only", "should_not"):
                        items[f"scan{t}.{label}.layer.{v}"] = out(getattr(LayerRule().based_on(arch_s).layers_that().are_named("first"), v)().access_layers_that().are_named("second"), ev)
                        items[f"scan{t}.{label}.layer.{v}.be.exc"] = out(getattr(LayerRule().based_on(arch_s).layers_that().are_named("second"), v)().be_accessed_by_layers_except_layers_that().are_named("first"), ev)
                    items[f"scan{t}.{label}.layer.any"] = out(LayerRule().based_on(arch_s).layers_that().are_named("first").should_not().access_any_layer(), ev)
            ev = get_evaluable_architecture(root, root)
            ns = sorted(n for n in ev.modules if n.count(".") >= 1)
            if len(ns) >= 4:
                items[f"scan{t}.rule"] = out(Rule().modules_that().are_named(ns[:2]).should_only().import_modules_that().are_named(ns[2:4]), ev)
            comps = sorted(n for n in ev.modules if n.count(".") == 1)[:4]
            if len(comps) >= 2:
                p = os.path.join(work, f"d{t}.puml")
                with open(p, "w") as f:
                    f.write("@startuml\n" + "\n".join(f"[{a}] --> [{b}]" for a, b in zip(comps, comps[1:])) + "\n@enduml\n")
                items[f"scan{t}.diagram"] = out(DiagramRule().from_file(Path(p)).base_module_included_in_module_names(), ev)
        # a diagram rule over short component names + with_base_module, many of its generated rules violated at once: the
        # aggregated message (its lines AND their order) is part of the outcome
        comps = [f"c{i}" for i in range(9)]
        dmods = ["r"] + [f"r.{c}" for c in comps]
        dimps = [(f"r.c{(i + 1) % 9}", f"r.c{i}") for i in range(9)] + [("r.c0", "r.c4"), ("r.c7", "r.c2")]
        evd = EvaluableArchitectureGraph(NetworkxGraph(list(dmods), [AbsoluteImport(a, b) for a, b in dimps]))
        p = os.path.join(work, "based.puml")
        with open(p, "w") as f:
            f.write("@startuml\n" + "\n".join(f"[c{i}] --> [c{(i + 1) % 9}]\n[c{i}] -> [c{(i + 3) % 9}]" for i in range(9)) + "\n@enduml\n")
        for mode in (True, False):
            items[f"diagram.based.{mode}"] = out(DiagramRule(should_only_rule=mode).from_file(Path(p)).with_base_module("r"), evd)
    finally:
        shutil.rmtree(work, ignore_errors=True)

    blob = json.dumps(items, sort_keys=True)
    print(json.dumps({"digest": hashlib.sha256(blob.encode()).hexdigest(), "n": len(items), "items": items}))


if __name__ == "__main__":
    main()
