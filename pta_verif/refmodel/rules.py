"""R-RULE: executable statement of the documented module-rule semantics.

Written from docs/features/module_import_checks.md and LANGUAGE_DEFINTION.md only;
does not import pytestarch.

A rule configuration is a plain dict:
  verb  : "should" | "should_only" | "should_not"
  dir   : "import" | "be"            (be = "be imported by")
  exc   : bool                        ("... except ...")
  subs  : [(kind, name), ...]         kind in {"named", "sub"}
  objs  : [(kind, name), ...]
  anything : bool                     ("import_anything"/"be_imported_by_anything")
"""
from __future__ import annotations

from .names import descendants, pairwise_unrelated, related

VERBS = ("should", "should_only", "should_not")
DIRS = ("import", "be")


def sel(f, mods) -> set[str]:
    kind, x = f
    d = descendants(x, mods)
    if kind == "named":
        d = d | ({x} if x in mods else set())
    return d


def evaluate(mods, imps, cfg, inside_parent: bool):
    """Returns (passes, positive_lines, negative_lines).

    positive_lines: set of (importer, importee) that the report must list.
    negative_lines: set of (subject_filter, frozenset(object_filters), any_other_flag).
    inside_parent: reading (i) of DESIGN.md - whether X itself is 'inside' a subject
    given as 'sub modules of X'.
    """
    verb, direction, exc = cfg["verb"], cfg["dir"], cfg["exc"]
    subs = [tuple(s) for s in cfg["subs"]]
    objs = [tuple(o) for o in cfg["objs"]]
    if cfg.get("anything"):
        verb, exc, objs = "should_not", True, list(subs)
    ok = True
    pos: set = set()
    neg: set = set()
    sel_objs = {o: sel(o, mods) for o in objs}
    oset = set().union(*sel_objs.values()) if objs else set()
    for s in subs:
        ss = sel(s, mods)
        inside = set(ss)
        if s[0] == "sub" and inside_parent:
            inside.add(s[1])

        def edges(o):
            so = sel_objs[o]
            if direction == "import":
                return {(a, b) for a, b in imps if a in ss and b in so}
            return {(a, b) for a, b in imps if a in so and b in ss}

        if direction == "import":
            oth = {(a, b) for a, b in imps if a in ss and b not in inside and b not in oset}
        else:
            oth = {(a, b) for a, b in imps if b in ss and a not in inside and a not in oset}
        forb_edge = (verb == "should_not" and not exc) or (verb == "should_only" and exc)
        forb_oth = (verb == "should_not" and exc) or (verb == "should_only" and not exc)
        req_edge = verb in ("should", "should_only") and not exc
        req_oth = verb in ("should", "should_only") and exc
        if forb_edge:
            for o in objs:
                e = edges(o)
                if e:
                    ok = False
                    pos |= e
        if forb_oth and oth:
            ok = False
            pos |= oth
        if req_edge:
            miss = frozenset(o for o in objs if not edges(o))
            if miss:
                ok = False
                neg.add((s, miss, False))
        if req_oth and not oth:
            ok = False
            neg.add((s, frozenset(objs), True))
    return ok, pos, neg


def decide(mods, imps, cfg):
    """Both readings of ambiguity (i); None when they disagree."""
    r1 = evaluate(mods, imps, cfg, False)
    r2 = evaluate(mods, imps, cfg, True)
    if r1 != r2:
        return None
    return r1


def verdict_only(mods, imps, cfg):
    r1 = evaluate(mods, imps, cfg, False)[0]
    r2 = evaluate(mods, imps, cfg, True)[0]
    return r1 if r1 == r2 else None


def strict_domain(cfg, mods):
    """(True, '') when the documentation is unambiguous for this configuration."""
    if cfg["verb"] not in VERBS:
        return False, "verb-combination"
    if cfg["dir"] not in DIRS:
        return False, "no-direction"
    subs = [tuple(s) for s in cfg["subs"]]
    objs = [tuple(o) for o in cfg["objs"]]
    if not subs:
        return False, "no-subject"
    if cfg.get("anything"):
        if cfg["verb"] != "should_not":
            return False, "anything-with-other-verb"
        if len(subs) > 1:
            return False, "anything-several-subjects"  # ambiguity (ii)
        objs = []
    elif not objs:
        return False, "no-object"
    for kind, _ in subs + objs:
        if kind not in ("named", "sub"):
            return False, "regex-filter"
    names = [n for _, n in subs + objs]
    for n in names:
        if n not in mods:
            return False, "unknown-module"
    if len({k for k, _ in subs}) > 1 or (objs and len({k for k, _ in objs}) > 1):
        return False, "mixed-filter-kinds"
    snames, onames = [n for _, n in subs], [n for _, n in objs]
    if any(related(a, b) for a in snames for b in onames):
        return False, "related-subjects-objects"
    if not pairwise_unrelated(names):
        # subjects related among themselves / objects related among themselves: requirements on imports between
        # a subject and an object are judged per pair and stay unambiguous; what counts as 'something else' does not
        edge_only = cfg["verb"] in ("should", "should_not") and not cfg["exc"] and not cfg.get("anything")
        if not edge_only or len(set(snames)) != len(snames) or len(set(onames)) != len(onames):
            return False, "related-subjects-objects"
    return True, ""


def shape(cfg) -> str:
    if cfg.get("anything"):
        return f"should_not/{cfg['dir']}/anything"
    return f"{cfg['verb']}/{cfg['dir']}/{'except' if cfg['exc'] else 'plain'}"
