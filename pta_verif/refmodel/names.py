"""Dotted-name algebra used by every reference model.  No import of pytestarch."""
from __future__ import annotations


def parts(m: str) -> list[str]:
    return m.split(".")


def ancestors(m: str) -> list[str]:
    """Strict ancestors, outermost first: a.b.c -> [a, a.b]."""
    p = m.split(".")
    return [".".join(p[:i]) for i in range(1, len(p))]


def is_ancestor(a: str, b: str) -> bool:
    """a is a strict ancestor of b, decided on whole dotted components."""
    pa, pb = a.split("."), b.split(".")
    return len(pa) < len(pb) and pb[: len(pa)] == pa


def related(a: str, b: str) -> bool:
    return a == b or is_ancestor(a, b) or is_ancestor(b, a)


def descendants(x: str, mods) -> set[str]:
    return {m for m in mods if is_ancestor(x, m)}


def close_under_ancestors(mods) -> set[str]:
    out = set(mods)
    for m in list(out):
        out.update(ancestors(m))
    return out


def truncate(m: str, k: int) -> str:
    """Keep at most k dotted components."""
    return ".".join(m.split(".")[:k])


def pairwise_unrelated(names) -> bool:
    names = list(names)
    for i, a in enumerate(names):
        for b in names[i + 1 :]:
            if related(a, b):
                return False
    return True
