"""R-GLOB: the four documented glob shapes as plain string predicates, and an independent
translation into a regular expression (for the deprecated partial-name form)."""
from __future__ import annotations

import re


def split(pat: str):
    lead = pat.startswith("*")
    trail = pat.endswith("*")
    if pat == "*":
        return True, True, ""
    text = pat[(1 if lead else 0) : (len(pat) - 1 if trail else len(pat))]
    return lead, trail, text


def matches(pat: str, s: str) -> bool:
    """literal text matched in full; leading * allows any prefix, trailing * any suffix;
    every other character (including further stars and regex metacharacters) is literal."""
    lead, trail, text = split(pat)
    if lead and trail:
        return text in s
    if lead:
        return s.endswith(text)
    if trail:
        return s.startswith(text)
    return s == text


def to_regex(pat: str) -> str:
    lead, trail, text = split(pat)
    body = "".join("\\" + c if not c.isalnum() and c != "_" else c for c in text)
    return ("(?s:.*)" if lead else "") + body + ("(?s:.*)" if trail else r"\Z")


def regex_matches(rx: str, s: str) -> bool:
    return re.match(rx, s) is not None
