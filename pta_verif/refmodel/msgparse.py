"""Parsers of the violation reports (observation side: turns the AssertionError text
into sets that can be compared with the reference violating sets)."""
from __future__ import annotations

import re


class Unparseable(Exception):
    pass


_POS = re.compile(r'"([^"]+)" (imports|is imported by) "([^"]+)"\.')
_NEG = re.compile(
    r'(Sub modules of )?"([^"]+)" (does not import|do not import|is not imported by|are not imported by) '
    r"(any module that is not )?(.*)\."
)
_OBJ = re.compile(r'(a sub module of )?"([^"]+)"')


def parse_module_message(msg: str, allow_duplicates: bool = False):
    """-> (pos, neg): pos = {(importer, importee)}, neg = {((kind,name), frozenset({(kind,name)}), any_flag)}."""
    pos, neg = set(), set()
    lines = msg.split("\n")
    if len(set(lines)) != len(lines) and not allow_duplicates:
        raise Unparseable(f"duplicate line in {msg!r}")
    for line in lines:
        m = _POS.fullmatch(line)
        if m:
            a, b = m.group(1), m.group(3)
            pos.add((a, b) if m.group(2) == "imports" else (b, a))
            continue
        m = _NEG.fullmatch(line)
        if not m:
            raise Unparseable(line)
        s = ("sub" if m.group(1) else "named", m.group(2))
        objs = []
        for o in m.group(5).split(", "):
            mo = _OBJ.fullmatch(o)
            if not mo:
                raise Unparseable(line)
            objs.append(("sub" if mo.group(1) else "named", mo.group(2)))
        if len(set(objs)) != len(objs):
            raise Unparseable(f"duplicate object in {line!r}")
        neg.add((s, frozenset(objs), bool(m.group(4))))
    return pos, neg


_TAG = r'(?: \((?:layer "([^"]+)"|(no layer))\))'
_LPOS = re.compile(rf'"([^"]+)"{_TAG} (imports|is imported by) "([^"]+)"{_TAG}\.')
_LNEG = re.compile(
    r'Layer "([^"]+)" (does not import|is not imported by) (any layer that is not )?(.*)\.'
)
_LOBJ = re.compile(r'layer "([^"]+)"')


def parse_layer_message(msg: str):
    """-> (pos, neg): pos = {(importer, importer_layer|None, importee, importee_layer|None)},
    neg = {(subject_layer, frozenset(object_layers), any_flag)}."""
    pos, neg = set(), set()
    lines = msg.split("\n")
    if len(set(lines)) != len(lines):
        raise Unparseable(f"duplicate line in {msg!r}")
    for line in lines:
        m = _LPOS.fullmatch(line)
        if m:
            x, xl, _, verb, y, yl, _ = m.groups()
            if verb == "imports":
                pos.add((x, xl, y, yl))
            else:
                pos.add((y, yl, x, xl))
            continue
        m = _LNEG.fullmatch(line)
        if not m:
            raise Unparseable(line)
        objs = []
        for o in m.group(4).split(", "):
            mo = _LOBJ.fullmatch(o)
            if not mo:
                raise Unparseable(line)
            objs.append(mo.group(1))
        if len(set(objs)) != len(objs):
            raise Unparseable(f"duplicate object in {line!r}")
        neg.add((m.group(1), frozenset(objs), bool(m.group(3))))
    return pos, neg
