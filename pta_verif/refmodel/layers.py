"""R-LAYER: documented layer-rule semantics (docs/features/layer_architecture_checks.md).
No import of pytestarch."""
from __future__ import annotations

import re

from .names import descendants, pairwise_unrelated, related


def layer_modules(defn, mods):
    """defn: list of (kind, text) with kind in {"named", "regex"} -> set of modules or None if undefined."""
    out = set()
    for kind, text in defn:
        if kind == "regex":
            try:
                pat = re.compile(text)
            except re.error:
                return None
            roots = [m for m in mods if pat.match(m)]
            if not roots:
                return None
        else:
            if text not in mods:
                return None
            roots = [text]
        for r in roots:
            out.add(r)
            out |= descendants(r, mods)
    return out


def strict_domain(layers, cfg, mods):
    """layers: {name: defn}. cfg: verb/dir/exc/subject/objects/anything."""
    if cfg["verb"] not in ("should", "should_only", "should_not") or cfg["dir"] not in ("import", "be"):
        return False, "incomplete"
    if cfg["subject"] not in layers or any(o not in layers for o in cfg["objects"]):
        return False, "undefined-layer"
    if cfg.get("anything"):
        if cfg["verb"] != "should_not":
            return False, "anything-with-other-verb"
    elif not cfg["objects"]:
        return False, "no-object"
    if cfg["subject"] in cfg["objects"] or len(set(cfg["objects"])) != len(cfg["objects"]):
        return False, "subject-among-objects"
    sets = {}
    roots = []
    per_layer = {}
    for name, defn in layers.items():
        s = layer_modules(defn, mods)
        if s is None:
            if name == cfg["subject"] or name in cfg["objects"] or any(k != "regex" for k, _ in defn):
                return False, "layer-without-modules"
            s = set()  # a regex layer the rule does not mention and that matches nothing: just no modules
        sets[name] = s
        mine = []
        for kind, text in defn:
            if kind == "named":
                mine.append(text)
            else:
                mine.extend(m for m in mods if re.match(text, m))
        per_layer[name] = mine
        roots.extend(mine)
    if len(set(roots)) != len(roots):
        return False, "related-layer-modules"
    # a layer is the union of its listed modules and their descendants, so listing a module next to one of its own
    # ancestors inside ONE layer is redundant but well defined; related modules in DIFFERENT layers are not
    names = list(per_layer)
    for i, a in enumerate(names):
        for b in names[i + 1 :]:
            if any(related(x, y) for x in per_layer[a] for y in per_layer[b]):
                return False, "related-layer-modules"
    return True, ""


def evaluate(layers, cfg, mods, imps):
    sets = {n: layer_modules(d, mods) or set() for n, d in layers.items()}
    ss = sets[cfg["subject"]]
    objs = [] if cfg.get("anything") else list(cfg["objects"])
    verb, exc = cfg["verb"], cfg["exc"]
    if cfg.get("anything"):
        verb, exc = "should_not", True
    oset = set().union(*[sets[o] for o in objs]) if objs else set()
    imp = cfg["dir"] == "import"

    def edges(o):
        so = sets[o]
        if imp:
            return {(a, b) for a, b in imps if a in ss and b in so}
        return {(a, b) for a, b in imps if a in so and b in ss}

    if imp:
        oth = {(a, b) for a, b in imps if a in ss and b not in ss and b not in oset}
    else:
        oth = {(a, b) for a, b in imps if b in ss and a not in ss and a not in oset}
    if not exc:
        if verb == "should":
            return all(edges(o) for o in objs)
        if verb == "should_only":
            return all(edges(o) for o in objs) and not oth
        return not any(edges(o) for o in objs)
    if verb == "should":
        return bool(oth)
    if verb == "should_only":
        return bool(oth) and not any(edges(o) for o in objs)
    return not oth


def shape(cfg):
    if cfg.get("anything"):
        return f"should_not/{cfg['dir']}/any_layer"
    return f"{cfg['verb']}/{cfg['dir']}/{'except' if cfg['exc'] else 'plain'}"


def report(layers, cfg, mods, imps):
    """-> (passes, positive import pairs, negative lines, layer_of) by the documented semantics: the violating set of
    a failing layer rule (forbidden imports between the subject layer and an object layer / something else) and, for
    missing required access, (subject layer, object layers it is missing for, 'anything else' flag)."""
    sets = {n: layer_modules(d, mods) or set() for n, d in layers.items()}
    ss = sets[cfg["subject"]]
    objs = [] if cfg.get("anything") else list(cfg["objects"])
    verb, exc = cfg["verb"], cfg["exc"]
    if cfg.get("anything"):
        verb, exc = "should_not", True
    oset = set().union(*[sets[o] for o in objs]) if objs else set()
    imp = cfg["dir"] == "import"

    def edges(o):
        so = sets[o]
        if imp:
            return {(a, b) for a, b in imps if a in ss and b in so}
        return {(a, b) for a, b in imps if a in so and b in ss}

    if imp:
        oth = {(a, b) for a, b in imps if a in ss and b not in ss and b not in oset}
    else:
        oth = {(a, b) for a, b in imps if b in ss and a not in ss and a not in oset}
    forb_edge = (verb == "should_not" and not exc) or (verb == "should_only" and exc)
    forb_oth = (verb == "should_not" and exc) or (verb == "should_only" and not exc)
    req_edge = verb in ("should", "should_only") and not exc
    req_oth = verb in ("should", "should_only") and exc
    ok, pos, neg = True, set(), set()
    if forb_edge:
        for o in objs:
            pos |= edges(o)
    if forb_oth:
        pos |= oth
    if pos:
        ok = False
    if req_edge:
        miss = frozenset(o for o in objs if not edges(o))
        if miss:
            ok = False
            neg.add((cfg["subject"], miss, False))
    if req_oth and not oth:
        ok = False
        neg.add((cfg["subject"], frozenset(objs), True))

    def layer_of(m):
        hit = [n for n, s in sets.items() if m in s]
        return hit[0] if len(hit) == 1 else None

    return ok, pos, neg, layer_of
