"""R-SCAN: reference scanner.  Reads the files on disk and states what the architecture
must contain according to C02/C04/C08/C09/C10.  Does not import pytestarch.

Result of `model(...)`:
  scanned      modules that come from a non-excluded directory / .py file at or below module_path
  internal     scanned + all their ancestors (this is the exact expected internal node set)
  statements   one record per (import statement, alias): importer, form, alternatives (the names the
               statement may legitimately be attributed to, first = preferred), line
Derived by `expect(...)`: required edge groups, allowed edges, required / forbidden externals.
"""
from __future__ import annotations

import ast
import os
import re
from dataclasses import dataclass, field
from pathlib import Path

from . import glob as rglob
from .names import ancestors, is_ancestor, truncate


@dataclass
class Stmt:
    importer: str
    form: str
    line: int
    alternatives: list  # acceptable importee names (>=1)
    note: str = ""
    via_prefix: bool = False  # absolute name written relative to module_path's parent directory


@dataclass
class Model:
    root: str
    mpname: str
    scanned: set
    internal: set
    on_disk: set  # modules that exist on disk below root regardless of exclusions / module_path
    statements: list = field(default_factory=list)
    files_read: int = 0
    excluded_dirs: int = 0
    excluded_files: int = 0
    unsupported: list = field(default_factory=list)


def _excluded(s: str, globs, regexes) -> bool:
    return any(rglob.matches(p, s) for p in globs) or any(re.match(p, s) is not None for p in regexes)


def _name(root: Path, p: Path) -> str:
    rel = p.relative_to(root)
    if str(rel) == ".":
        return root.name
    return root.name + "." + ".".join(rel.with_suffix("").parts)


def disk_modules(root: Path) -> set:
    out = set()
    for d, dirs, files in os.walk(root, followlinks=True):
        dp = Path(d)
        # symlinked directories are walked like the scanner does (a second name for the same content); the depth
        # cap only guards this walk against a link that leads back into its own ancestors
        if d.count(os.sep) - str(root).count(os.sep) > 40:
            dirs[:] = []
            continue
        out.add(_name(root, dp))
        for f in files:
            if f.endswith(".py"):
                out.add(_name(root, dp / f))
    return out


def model(root_path, module_path, exclusions=(), regex_exclusions=()) -> Model:
    root, mp = Path(root_path), Path(module_path)
    globs, regexes = tuple(exclusions or ()), tuple(regex_exclusions or ())
    scanned, files = set(), []
    m = Model(root.name, _name(root, mp), scanned, set(), disk_modules(root))

    def walk(d: Path):
        if _excluded(str(d), globs, regexes):
            m.excluded_dirs += 1
            return
        scanned.add(_name(root, d))
        for e in sorted(d.iterdir()):
            if e.is_dir():
                walk(e)
            elif e.suffix == ".py":
                if _excluded(str(e), globs, regexes):
                    m.excluded_files += 1
                else:
                    scanned.add(_name(root, e))
                    files.append(e)

    walk(mp)
    internal = set(scanned)
    for x in scanned:
        internal.update(ancestors(x))
    m.internal = internal
    prefix = ".".join(mp.parent.relative_to(root.parent).parts) if mp != root else None

    def resolutions(t: str):
        """An absolute name may be written fully qualified from the root directory's name or
        relative to module_path's parent directory."""
        r = []
        if prefix is not None and f"{prefix}.{t}" in scanned:
            r.append(f"{prefix}.{t}")
        r.append(t)
        return r

    def readings(t: str):
        """The names an absolute import may stand for: normally one; both spellings when the name as written is itself
        an internal module AND resolves relative to module_path's parent (a package named like the root directory:
        the property says both spellings resolve, not which one wins)."""
        r = resolutions(t)
        if len(r) == 2 and (r[1] in internal or r[1].split(".")[0] == root.name):
            return r
        return r[:1]

    def inside(n: str) -> bool:
        return n == m.mpname or is_ancestor(m.mpname, n)

    for f in files:
        me = _name(root, f)
        m.files_read += 1
        tree = ast.parse(f.read_bytes())  # bytes: the compiler itself honours a BOM / an encoding declaration
        for node in ast.walk(tree):
            if isinstance(node, ast.Import):
                for al in node.names:
                    ts = readings(al.name)
                    m.statements.append(Stmt(me, "import" + (" as" if al.asname else ""), node.lineno, list(ts), "ambiguous-root-named-package" if len(ts) > 1 else "", via_prefix=ts[0] != al.name))
            elif isinstance(node, ast.ImportFrom):
                via = False
                bases = None
                if node.level == 0:
                    bases = readings(node.module)
                    base = bases[0]
                    via = base != node.module
                    form = "from"
                else:
                    anc = ancestors(me)
                    if node.level > len(anc):
                        m.unsupported.append((me, node.lineno, "relative import beyond top level"))
                        continue
                    a = anc[-node.level]
                    base = a + ("." + node.module if node.module else "")
                    form = f"from-rel{node.level}" + ("" if node.module else "-nomod")
                for al in node.names:
                    cand = f"{base}.{al.name}"
                    if al.name == "*":
                        alts, note = [base], "star"
                    elif cand in scanned:
                        alts, note = [cand], "submodule"
                    elif cand in m.on_disk and inside(cand):
                        # P.n exists on disk but was excluded: C02 says P, C08's 'unchanged' relation says no new edge
                        alts, note = [base, None], "excluded-submodule"
                    elif not inside(base) and (node.level > 0 or base in m.on_disk or cand in m.on_disk):
                        # target outside module_path: nobody scanned it, P or P.n are both acceptable names
                        alts, note = [base, cand], "outside-module-path"
                    else:
                        alts, note = [base], "name"
                    if bases and len(bases) > 1:
                        # second reading of an ambiguous base: P2.n if scanned, else P2
                        c2 = f"{bases[1]}.{al.name}"
                        alts = list(alts) + [c2 if (al.name != "*" and c2 in scanned) else bases[1]]
                        note = "ambiguous-root-named-package"
                    m.statements.append(Stmt(me, form + (":" + note if note != "name" else ""), node.lineno, alts, note, via))
    return m


@dataclass
class Expect:
    internal_nodes: set
    required_groups: list  # [(Stmt, {edges})] at least one edge of the set must exist
    allowed_edges: set
    ext_required_nodes: list  # [(why, {alternatives})]
    ext_required_edges: list  # [(Stmt, {edges})]
    ext_forbidden: object  # predicate(name) -> bool
    total_limit: int | None


def is_internal_name(mpname: str, n: str) -> bool:
    return n == mpname or is_ancestor(mpname, n) or is_ancestor(n, mpname)


def expect(m: Model, exclude_external=True, level_limit=None, ext_globs=(), ext_regexes=()) -> Expect:
    k = None if level_limit is None else len(m.mpname.split(".")) + level_limit
    t = (lambda n: n) if k is None else (lambda n: truncate(n, k))
    internal_nodes = {t(n) for n in m.internal}
    required, allowed = [], set()
    ext_nodes, ext_edges = [], []

    def ext_excluded(n):
        return any(_excluded(x, ext_globs, ext_regexes) for x in [n] + ancestors(n))

    for s in m.statements:
        alts = [a for a in s.alternatives if a is not None]
        optional = None in s.alternatives
        int_alts = [a for a in alts if a in m.internal]
        ext_alts = [a for a in alts if not is_internal_name(m.mpname, a) and a not in m.internal]
        edges = set()
        for a in int_alts:
            e = (t(s.importer), t(a))
            if e[0] == e[1]:
                continue
            allowed.add(e)
            if is_ancestor(a, s.importer) or a not in m.scanned:
                continue  # own ancestor packages: outside the claim (allowed, not required)
            edges.add(e)
        if edges and not optional and len(int_alts) == len(alts):
            required.append((s, edges))
        if not exclude_external and ext_alts and len(ext_alts) == len(alts) and k is None:
            keep = [a for a in ext_alts if not ext_excluded(a)]
            if len(keep) == len(ext_alts):
                ext_edges.append((s, {(s.importer, a) for a in keep}))
                ext_nodes.append((f"importee of {s.importer}:{s.line}", set(keep)))
                common = set.intersection(*[set(ancestors(a)) for a in keep])
                for anc in common:
                    ext_nodes.append((f"ancestor of importee of {s.importer}:{s.line}", {anc}))
    return Expect(internal_nodes, required, allowed, ext_nodes, ext_edges, ext_excluded, k)


def compare(m: Model, ex: Expect, nodes: set, imps: set, exclude_external=True):
    """-> list of (property, key, text, detail)."""
    out = []
    got_internal = {n for n in nodes if is_internal_name(m.mpname, n)}
    got_external = nodes - got_internal
    miss, extra = ex.internal_nodes - got_internal, got_internal - ex.internal_nodes
    if miss:
        out.append(("nodes", "missing-module", f"modules missing: {sorted(miss)[:6]}", sorted(miss)))
    if extra:
        out.append(("nodes", "extra-module", f"modules not accounted for by the directory tree: {sorted(extra)[:6]}", sorted(extra)))
    int_edges = {(a, b) for a, b in imps if a in got_internal and b in got_internal}
    for s, edges in ex.required_groups:
        if not (edges & int_edges):
            out.append(("edge-missing", s.form, f"{s.importer}:{s.line} ({s.form}) has no import edge to {sorted(e[1] for e in edges)}", {"importer": s.importer, "line": s.line, "form": s.form, "expected": sorted(edges), "via_prefix": s.via_prefix}))
    for e in sorted(int_edges - ex.allowed_edges):
        if is_ancestor(e[1], e[0]):
            continue  # import of an own ancestor package: outside the claim
        out.append(("edge-extra", "unexplained", f"import {e[0]} -> {e[1]} is not accounted for by any import statement", {"edge": e}))
    if exclude_external:
        if got_external:
            out.append(("external", "present-in-exclude-mode", f"modules outside module_path present although externals are excluded: {sorted(got_external)[:6]}", sorted(got_external)))
    else:
        for why, alts in ex.ext_required_nodes:
            if not (alts & nodes):
                out.append(("external", "missing-external-node", f"external module {sorted(alts)} ({why}) missing", sorted(alts)))
        for s, edges in ex.ext_required_edges:
            if not (edges & imps):
                out.append(("external", "missing-external-import", f"{s.importer}:{s.line} import of external {sorted(e[1] for e in edges)} missing", sorted(edges)))
        bad = sorted(n for n in got_external if ex.ext_forbidden(n))
        if bad:
            out.append(("external", "excluded-external-present", f"externals matching an exclusion pattern (or with a matching ancestor) present: {bad[:6]}", bad))
        bad_e = sorted((a, b) for a, b in imps if b in got_external and ex.ext_forbidden(b))
        if bad_e:
            out.append(("external", "excluded-external-imported", f"imports of excluded externals present: {bad_e[:4]}", bad_e))
        if ex.total_limit is None:
            # exactness of the external side: every module outside module_path is a module some import statement can mean
            # (any of its readings) or an ancestor package of one; every import of such a module is written in its importer
            allowed_nodes, allowed_edges = set(), set()
            for s in m.statements:
                for a in s.alternatives:
                    if a is not None:
                        allowed_nodes.add(a)
                        allowed_nodes.update(ancestors(a))
                        allowed_edges.add((s.importer, a))
            phantom = sorted(got_external - allowed_nodes)
            if phantom:
                out.append(("external", "phantom-external-node", f"modules outside module_path that no import statement names: {phantom[:6]}", phantom))
            phantom_e = sorted((a, b) for a, b in imps if b in got_external and (a, b) not in allowed_edges)
            if phantom_e:
                out.append(("external", "phantom-external-import", f"imports of external modules that no statement of the importer writes: {phantom_e[:4]}", phantom_e))
    return out
