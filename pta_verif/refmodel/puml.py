"""R-PUML: the documented PlantUML subset (docs/features/plantuml.md + the parser's docstring).

render(spec)     : diagram text for a generated specification (truth known by construction)
truth(spec)      : (components, relation) the text was generated from
recognise(text)  : strict line-by-line recogniser for foreign files; returns (components, relation)
                   or None when any line lies outside the documented subset (abstain).
"""
from __future__ import annotations

import re

DECL_FORMS = ["none", "[n]", "component n", "component [n]", "[n] as a", "component [n] as a"]
ARROWS = ["-->", "->", "<--", "<-", "-text->", "<-text-"]
REF_FORMS = ["[n]", "n", "alias"]


def truth(spec):
    comps = set(spec["components"])
    rel = {(a, b) for a, b in spec["relation"]}
    return comps, rel


def _ref(name, form, spec):
    alias = spec["decl"].get(name, ("none", None))[1]
    if form == "alias" and alias:
        return alias
    if form == "n":
        return name
    return f"[{name}]"


def render_lines(spec):
    """-> (declaration lines, arrow lines)."""
    decls = []
    for name in spec["components"]:
        form, alias = spec["decl"].get(name, ("none", None))
        if form == "none":
            continue
        line = form.replace("[n]", f"[{name}]") if "[n]" in form else form.replace("component n", f"component {name}")
        if " as a" in form:
            line = line[: -len(" as a")] + f" as {alias}"
        decls.append(line)
    arrows = []
    for (a, b), (arrow, fa, fb, word) in zip(spec["relation"], spec["arrow_forms"]):
        ra, rb = _ref(a, fa, spec), _ref(b, fb, spec)
        if arrow in ("-->", "->"):
            arrows.append(f"{ra} {arrow} {rb}")
        elif arrow in ("<--", "<-"):
            arrows.append(f"{rb} {arrow} {ra}")
        elif arrow == "-text->":
            arrows.append(f"{ra} -{word}-> {rb}")
        else:
            arrows.append(f"{rb} <-{word}- {ra}")
    return decls, arrows


def render(spec) -> str:
    decls, arrows = render_lines(spec)
    lines = decls + arrows
    order = spec.get("order")
    if order:
        lines = [lines[i] for i in order]
    body = "\n".join(lines)
    start = "@startuml" if spec.get("start_tag", True) else ""
    end = "@enduml" if spec.get("end_tag", True) else ""
    return f"{spec.get('noise_before', '')}{start}\n{body}\n{end}{spec.get('noise_after', '')}"


_NAME = r"\w+(?:\.\w+)*"
_DECL = re.compile(rf"(?:(?:component )?\[({_NAME})\](?: as (\w+))?|component ({_NAME}))")
_END = rf"(?:\[({_NAME})\]|({_NAME}))"
_ARROW_R = re.compile(rf"{_END} (?:-->|->|-\w+->) {_END}")
_ARROW_L = re.compile(rf"{_END} (?:<--|<-|<-\w+-) {_END}")


def recognise(text: str):
    if "@startuml" not in text or "@enduml" not in text:
        return None
    if text.count("@startuml") != 1 or text.count("@enduml") != 1:
        return None
    if text.index("@enduml") < text.index("@startuml"):
        return None  # no end tag after the start tag: not a diagram of the subset (abstain)
    body = text.split("@startuml", 1)[1].split("@enduml", 1)[0]
    aliases, comps, arrows = {}, set(), []
    for line in body.split("\n"):
        if line == "":
            continue
        m = _DECL.fullmatch(line)
        if m:
            name = m.group(1) or m.group(3)
            comps.add(name)
            if m.group(2):
                aliases[m.group(2)] = name
            continue
        m = _ARROW_R.fullmatch(line)
        if m:
            arrows.append((m.group(1) or m.group(2), m.group(3) or m.group(4), bool(m.group(1)), bool(m.group(3))))
            continue
        m = _ARROW_L.fullmatch(line)
        if m:
            arrows.append((m.group(3) or m.group(4), m.group(1) or m.group(2), bool(m.group(3)), bool(m.group(1))))
            continue
        return None
    rel = set()
    for a, b, ba, bb in arrows:
        a = a if ba else aliases.get(a, a)
        b = b if bb else aliases.get(b, b)
        if a == b:
            return None
        rel.add((a, b))
        comps.update((a, b))
    if set(aliases) & comps:
        return None  # an alias that is also a component name: outside the documented subset
    return comps, rel
