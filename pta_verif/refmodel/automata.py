"""Specification automata written from the documentation only (LANGUAGE_DEFINTION.md,
docs/features/*.md).  They read the recorded fluent traces ([method, args, outcome]) and
classify what the documentation demands; they never look at pytestarch's state.

Verdict classes for an evaluation (assert_applies):
  MUST_RAISE   the specification is incomplete / contradictory: no verdict may be produced
  COMPLETE     canonical complete chain: a verdict (or a lookup error) is legitimate
  UNSPECIFIED  the documentation leaves it open (redundant / re-ordered chains, should + should_only)
"""
from __future__ import annotations

MUST_RAISE, COMPLETE, UNSPECIFIED = "MUST_RAISE", "COMPLETE", "UNSPECIFIED"

RULE_FILTERS = {"are_named", "are_sub_modules_of", "have_name_matching", "have_name_containing"}
RULE_VERBS = {"should", "should_only", "should_not"}
RULE_IMPORT = {
    "import_modules_that": ("import", False, False),
    "be_imported_by_modules_that": ("be", False, False),
    "import_modules_except_modules_that": ("import", True, False),
    "be_imported_by_modules_except_modules_that": ("be", True, False),
    "import_anything": ("import", False, True),
    "be_imported_by_anything": ("be", False, True),
}


class RuleAutomaton:
    """A-RULE."""

    def __init__(self):
        self.slot = None
        self.subject = False
        self.object = False
        self.verbs = set()
        self.direction = None
        self.exc = False
        self.anything = False
        self.history = []
        self.must_raise_at_call = None

    def call_must_raise(self, name) -> str | None:
        """reason if this call itself must be rejected (object/subject list before any slot exists)."""
        if name in RULE_FILTERS and self.slot is None:
            return "module list given before modules_that() / an import type"
        return None

    def feed(self, name, args=None):
        self.history.append(name)
        if name == "modules_that":
            self.slot = "subject"
        elif name in RULE_FILTERS:
            # an empty batch names no module: the side stays (or becomes) unspecified - the last specification counts
            given = not (args and isinstance(args[0], list) and len(args[0]) == 0)
            if self.slot == "subject":
                self.subject = given
            elif self.slot == "object":
                self.object = given
        elif name in RULE_VERBS:
            self.verbs.add(name)
        elif name in RULE_IMPORT:
            d, exc, anything = RULE_IMPORT[name]
            self.direction = d
            self.exc = self.exc or exc
            self.anything = self.anything or anything
            self.slot = "object"

    def classify(self):
        reasons = []
        if not self.subject:
            reasons.append("no subject")
        if not self.verbs:
            reasons.append("no verb")
        if self.direction is None:
            reasons.append("no import type")
        if not self.object and not self.anything:
            reasons.append("no object")
        if "should_not" in self.verbs and len(self.verbs) > 1:
            reasons.append("should_not combined with another verb")
        if self.anything and self.verbs and self.verbs != {"should_not"}:
            reasons.append("'anything' with a verb other than should_not")
        if reasons:
            return MUST_RAISE, reasons
        h = self.history
        canonical = (
            len(h) in (4, 5)
            and h[0] == "modules_that"
            and h[1] in RULE_FILTERS
            and h[2] in RULE_VERBS
            and h[3] in RULE_IMPORT
            and ((len(h) == 5 and h[4] in RULE_FILTERS and not RULE_IMPORT[h[3]][2]) or (len(h) == 4 and RULE_IMPORT[h[3]][2]))
        )
        return (COMPLETE, []) if canonical else (UNSPECIFIED, [])


LAYER_ACCESS = {
    "access_layers_that": ("import", False, False),
    "be_accessed_by_layers_that": ("be", False, False),
    "access_layers_except_layers_that": ("import", True, False),
    "be_accessed_by_layers_except_layers_that": ("be", True, False),
    "access_any_layer": ("import", False, True),
    "be_accessed_by_any_layer": ("be", False, True),
}


class LayerRuleAutomaton:
    """A-LAYERRULE (ordering rules of C16 + completeness rules of C13)."""

    def __init__(self):
        self.arch = False
        self.started = False  # layers_that() seen
        self.subjects = 0
        self.objects = 0
        self.verbs = set()
        self.direction = None
        self.anything = False
        self.history = []

    def call_must_raise(self, name, args) -> str | None:
        """C16: violations that must be rejected with a configuration error at the offending call."""
        if name == "based_on" and self.arch:
            return "second architecture"
        if name == "layers_that" and not self.arch:
            return "layer rule without architecture"
        if name == "are_named" and self.started and self.direction is None:
            if self.subjects >= 1:
                return "second subject layer"
            if args and isinstance(args[0], list):
                return "subject layers given in batch"
        return None

    def call_must_not_succeed_silently(self, name) -> str | None:
        """C13-side: calls that cannot be part of any meaningful rule yet."""
        if name != "based_on" and name != "layers_that" and not self.started:
            return "rule part before layers_that()"
        return None

    def feed(self, name, args):
        self.history.append(name)
        if name == "based_on":
            self.arch = True
        elif name == "layers_that":
            # entry point of a rule: calling it again starts the rule afresh (nothing of the previous
            # subject / verb / object survives), so "exactly one subject" is counted from here
            self.started = True
            self.subjects = 0
            self.objects = 0
            self.verbs = set()
            self.direction = None
            self.anything = False
        elif name == "are_named":
            if self.direction is None:
                self.subjects += 1
            else:
                self.objects += 1
        elif name in RULE_VERBS:
            self.verbs.add(name)
        elif name in LAYER_ACCESS:
            d, _exc, anything = LAYER_ACCESS[name]
            self.direction = d
            self.anything = self.anything or anything

    def classify(self):
        reasons = []
        if not self.arch:
            reasons.append("no architecture")
        if not self.started or self.subjects == 0:
            reasons.append("no subject layer")
        if not self.verbs:
            reasons.append("no verb")
        if self.direction is None:
            reasons.append("no access type")
        if self.objects == 0 and not self.anything:
            reasons.append("no object layer")
        if "should_not" in self.verbs and len(self.verbs) > 1:
            reasons.append("should_not combined with another verb")
        if self.anything and self.verbs and self.verbs != {"should_not"}:
            reasons.append("'any layer' with a verb other than should_not")
        if reasons:
            return MUST_RAISE, reasons
        h = self.history
        canonical = (
            len(h) in (5, 6)
            and h[:3] == ["based_on", "layers_that", "are_named"]
            and h[3] in RULE_VERBS
            and h[4] in LAYER_ACCESS
            and ((len(h) == 6 and h[5] == "are_named" and not LAYER_ACCESS[h[4]][2]) or (len(h) == 5 and LAYER_ACCESS[h[4]][2]))
        )
        return (COMPLETE, []) if canonical else (UNSPECIFIED, [])


class ArchAutomaton:
    """A-ARCH: LayeredArchitecture builder (C16)."""

    def __init__(self):
        self.layers = []  # [(name, [module identifiers] | None)]
        self.pending = None
        self.assigned = set()

    def call_must_raise(self, name, args) -> str | None:
        if name == "layer":
            if self.pending is not None:
                return "new layer while the previous one has no modules"
            if args and args[0] in [n for n, _ in self.layers]:
                return "layer name reused"
        elif name == "containing_modules":
            if self.pending is None:
                return "modules without a layer being defined"
            mods = args[0] if args and isinstance(args[0], list) else [args[0]] if args else []
            dup = [m for m in mods if m in self.assigned]
            if dup:
                return f"module(s) {dup} already assigned to a layer"
        elif name == "have_modules_with_names_matching":
            if self.pending is None:
                return "modules without a layer being defined"
        return None

    def feed(self, name, args):
        if name == "layer":
            self.pending = args[0]
            self.layers.append((args[0], None))
        elif name == "containing_modules":
            mods = list(args[0]) if isinstance(args[0], list) else [args[0]]
            self.layers[-1] = (self.pending, mods)
            self.assigned.update(mods)
            if mods:  # an empty list is no module: the layer still has to receive its modules
                self.pending = None
        elif name == "have_modules_with_names_matching":
            self.layers[-1] = (self.pending, [args[0]])
            self.pending = None

    def expected_str(self):
        parts = [f"Layer {n}: [{', '.join(ms or [])}]" for n, ms in self.layers]
        return f'Layered Architecture: {"; ".join(parts)}'
