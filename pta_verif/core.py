"""Accumulator shared by workloads, monitors and the runner.

Everything a shard observed is kept here and serialised to JSON so that the parent
process can merge shards: counters, histograms, digests of distinct non-trivial cases,
literal samples, violations (mechanism key + witness + replayable case) and
inconclusive markers.
"""
from __future__ import annotations

import hashlib
import json
from collections import Counter, defaultdict

MAX_SAMPLES = 5
MAX_VIOLATIONS_PER_KEY = 3


def digest(obj) -> int:
    s = json.dumps(obj, sort_keys=True, default=_default).encode()
    return int.from_bytes(hashlib.blake2b(s, digest_size=8).digest(), "big")


def _default(o):
    if isinstance(o, (set, frozenset)):
        return sorted(_default(x) if isinstance(x, (set, frozenset, tuple)) else x for x in o)
    if isinstance(o, tuple):
        return list(o)
    return repr(o)


def jsonable(o):
    return json.loads(json.dumps(o, sort_keys=True, default=_default))


class Acc:
    def __init__(self) -> None:
        self.counters: Counter = Counter()
        self.hists: dict[str, Counter] = defaultdict(Counter)
        self.distinct: set[int] = set()
        self.samples: list = []
        self.violations: dict[str, list] = defaultdict(list)
        self.violation_counts: Counter = Counter()
        self.inconclusive: list[str] = []
        self.flags: dict = {}
        self.evaluations = 0

    # -- recording -------------------------------------------------------------
    def count(self, key: str, n: int = 1) -> None:
        self.counters[key] += n

    def hist(self, name: str, key, n: int = 1) -> None:
        self.hists[name][str(key)] += n

    def evaluated(self, n: int = 1) -> None:
        self.evaluations += n

    def nontrivial(self, obj) -> None:
        self.distinct.add(obj if isinstance(obj, int) else digest(obj))

    def sample(self, obj, limit: int = MAX_SAMPLES) -> None:
        if len(self.samples) < limit:
            self.samples.append(jsonable(obj))

    def violation(self, key: str, what: str, witness, case=None) -> None:
        self.violation_counts[key] += 1
        lst = self.violations[key]
        if len(lst) < MAX_VIOLATIONS_PER_KEY:
            lst.append({"key": key, "what": what, "witness": jsonable(witness), "case": jsonable(case)})

    def mark_inconclusive(self, why: str) -> None:
        if why not in self.inconclusive:
            self.inconclusive.append(why)

    # -- (de)serialisation -------------------------------------------------------
    def dump(self) -> dict:
        return {
            "counters": dict(self.counters),
            "hists": {k: dict(v) for k, v in self.hists.items()},
            "distinct": sorted(self.distinct),
            "samples": self.samples,
            "violations": dict(self.violations),
            "violation_counts": dict(self.violation_counts),
            "inconclusive": self.inconclusive,
            "flags": self.flags,
            "evaluations": self.evaluations,
        }

    def merge(self, d: dict) -> None:
        self.counters.update(d["counters"])
        for k, v in d["hists"].items():
            self.hists[k].update(v)
        self.distinct.update(d["distinct"])
        for s in d["samples"]:
            if len(self.samples) < MAX_SAMPLES:
                self.samples.append(s)
        for k, lst in d["violations"].items():
            for v in lst:
                if len(self.violations[k]) < MAX_VIOLATIONS_PER_KEY:
                    self.violations[k].append(v)
        self.violation_counts.update(d["violation_counts"])
        for w in d["inconclusive"]:
            self.mark_inconclusive(w)
        for k, v in d["flags"].items():
            if isinstance(v, bool):
                self.flags[k] = self.flags.get(k, True) and v
            elif isinstance(v, (int, float)):
                self.flags[k] = self.flags.get(k, 0) + v
            else:
                self.flags[k] = v
        self.evaluations += d["evaluations"]
