"""Project-tree generation for the scan-level workloads (C02, C04, C08, C09, C10, C14, C15).

A tree spec is JSON-able: {"root": name, "dirs": [relative dir paths], "files": {relative path: source}}.
Trees are written below $PTA_SCRATCH (a tmpfs directory owned by the runner, removed afterwards).
Never generated (outside every property's quantifier): x.py beside x/, dotted directory names,
a directory named like the root inside the root, symlinks, syntax errors.
"""
from __future__ import annotations

import itertools
import os
import random
import shutil

from . import boot

_seq = itertools.count()

NAMES = ["a", "ab", "a_b", "aa", "b", "ba", "pkg", "sub", "util", "core", "handlers", "myhandlers", "h", "x", "y", "z", "m0", "m1"]
# legal but unusual identifiers (all NFKC-stable, so an import statement spells them exactly like the directory entry):
# non-ASCII first letters, combining marks / U+00B7 (identifier characters that are no regex word characters), names that
# differ only in case or in zero padding, names starting with "py" or containing "init", soft keywords
NAMES += ["größe", "überblick", "данные", "ข้อมูล", "a·b", "Models", "models", "m01", "py", "pyx", "python_compat", "x_py", "init_x", "match", "type"]
EXTERNALS = [
    "os", "os.path", "sys", "json", "xml.etree.ElementTree", "logging.handlers", "urllib.parse", "collections.abc",
    "extlib", "extlib.core", "extlib.core.deep", "vendor.pkg.handlers", "numpyish.linalg",
]


# names that are string prefixes / case or padding twins of one another: drawn more often than the rest, because most
# name-handling defects need two such names in one tree
COLLIDING = ["a", "ab", "a_b", "aa", "a·b", "m0", "m01", "m1", "models", "Models", "py", "pyx", "handlers", "myhandlers", "h"]


def pick_name(rnd, names):
    fam = [n for n in COLLIDING if n in names]
    if len(fam) >= 3 and rnd.random() < 0.4:
        return rnd.choice(fam)
    return rnd.choice(names)


def scratch_dir() -> str:
    base = os.environ.get("PTA_SCRATCH")
    if not base:
        base = os.path.join(boot.scratch_root(), f"PTA-{os.getpid()}")
    os.makedirs(base, exist_ok=True)
    return os.path.realpath(base)


def write_tree(spec, sub=None) -> str:
    """Writes the tree; returns the absolute (real) path of its root directory."""
    d = os.path.join(scratch_dir(), sub or f"T{next(_seq)}")
    root = os.path.join(d, spec["root"])
    os.makedirs(root, exist_ok=True)
    for rel in spec.get("dirs", []):
        os.makedirs(os.path.join(root, rel), exist_ok=True)
    for rel, src in spec["files"].items():
        p = os.path.join(root, rel)
        os.makedirs(os.path.dirname(p), exist_ok=True)
        if isinstance(src, dict):  # {"hex": "..."}: literal file bytes (BOM, encoding declarations, line endings)
            with open(p, "wb") as f:
                f.write(bytes.fromhex(src["hex"]))
        else:
            with open(p, "w") as f:
                f.write(src)
    for link_rel, target_rel in spec.get("symlinks", []):
        # a directory reachable under a second name (never a cycle: the caller picks a link location outside the target)
        os.symlink(os.path.join(root, target_rel), os.path.join(root, link_rel), target_is_directory=True)
    return os.path.realpath(root)


def remove_tree(root_path: str) -> None:
    shutil.rmtree(os.path.dirname(root_path), ignore_errors=True)


def mod_of(root: str, rel: str) -> str:
    rel = rel[:-3] if rel.endswith(".py") else rel
    return root + ("." + rel.replace("/", ".") if rel and rel != "." else "")


def random_layout(rnd: random.Random, root="proj", depth=4, n_dirs=(2, 6), n_files=(4, 10), names=NAMES, init_p=0.7, root_named_dir=False):
    """-> (dirs, pyfiles) relative paths.  Names in one directory are unique across files and
    sub-directories (no x.py beside x/)."""
    dirs = [""]
    used = {"": set()}
    for _ in range(rnd.randint(*n_dirs)):
        # bias towards deepening: half of the time extend one of the two most recently created directories
        parent = rnd.choice(dirs[-2:]) if rnd.random() < 0.5 else rnd.choice(dirs)
        if parent.count("/") + (1 if parent else 0) >= depth:
            continue
        n = pick_name(rnd, names)
        if root_named_dir and len(dirs) == 1:
            n = root  # layouts like shop/shop: a package named like the root directory
        if n in used[parent] or (n == root and not root_named_dir):
            continue
        used[parent].add(n)
        d = f"{parent}/{n}" if parent else n
        dirs.append(d)
        used[d] = set()
    files = []
    for d in dirs:
        if d and rnd.random() < init_p:
            files.append(f"{d}/__init__.py")
        elif not d and rnd.random() < init_p:
            files.append("__init__.py")
    for _ in range(rnd.randint(*n_files)):
        d = rnd.choice(dirs)
        n = pick_name(rnd, names)
        if n in used[d]:
            continue
        used[d].add(n)
        files.append(f"{d}/{n}.py" if d else f"{n}.py")
    return dirs, files


def render_import(rnd, root, importer_rel, target_mod, all_mods, strip_prefix=None, allow_relative=True):
    """One import statement text that (by C02's rules) names `target_mod`, plus its form label."""
    me = mod_of(root, importer_rel)
    me_pkg = me.rsplit(".", 1)[0]
    written = target_mod
    if strip_prefix and target_mod.startswith(strip_prefix + ".") and rnd.random() < 0.5:
        written = target_mod[len(strip_prefix) + 1 :]
    forms = ["import", "import-as", "from-sub"]
    parent, _, leaf = written.rpartition(".")
    if not parent:
        forms = ["import", "import-as"]
    # relative spelling possible when the target lies below some ancestor package of the importer
    rel = None
    if allow_relative:
        anc = me.split(".")[:-1]
        for level in range(1, len(anc) + 1):
            base = ".".join(anc[: len(anc) - level + 1])
            if target_mod.startswith(base + ".") and target_mod != base:
                rel = (level, target_mod[len(base) + 1 :])
                break
        if rel:
            forms += ["rel", "rel"]
    form = rnd.choice(forms)
    if form == "import":
        return f"import {written}", "import"
    if form == "import-as":
        return f"import {written} as al{rnd.randint(0, 99)}", "import-as"
    if form == "from-sub":
        return f"from {parent} import {leaf}", "from-submodule"
    level, tail = rel
    tparent, _, tleaf = tail.rpartition(".")
    dots = "." * level
    if tparent:
        return f"from {dots}{tparent} import {tleaf}", f"from-rel{level}-submodule"
    return f"from {dots} import {tleaf}", f"from-rel{level}-nomod"


def random_project(
    rnd: random.Random,
    root="proj",
    depth=4,
    imports_per_file=(0, 3),
    externals=0.0,
    name_imports=0.3,
    strip_prefix=None,
    names=NAMES,
    extras=True,
    dangling=0.0,
    root_named_dir=False,
):
    """Random project with internal imports between its own modules."""
    dirs, files = random_layout(rnd, root, depth, names=names, root_named_dir=root_named_dir)
    mods_files = [mod_of(root, f) for f in files]
    mods_dirs = [mod_of(root, d) for d in dirs if d]
    targets = [m for m in mods_files + mods_dirs if all(part.isidentifier() for part in m.split('.'))]
    spec_files = {}
    for f in files:
        me = mod_of(root, f)
        lines = ["# generated"]
        for _ in range(rnd.randint(*imports_per_file)):
            cands = [t for t in targets if t != me and not me.startswith(t + ".")]
            r = rnd.random()
            if externals and r < externals:
                e = rnd.choice(EXTERNALS)
                if rnd.random() < 0.5 or "." not in e:
                    lines.append(f"import {e}")
                else:
                    p, _, leaf = e.rpartition(".")
                    lines.append(f"from {p} import {leaf}")
                continue
            if dangling and r < externals + dangling:
                lines.append(f"import {root}.missing{rnd.randint(0, 3)}")
                continue
            if not cands:
                continue
            t = rnd.choice(cands)
            if rnd.random() < name_imports:
                kind = rnd.choice(["name", "star", "mixed"])
                kids = [c for c in cands if c.rsplit(".", 1)[0] == t and c != me]
                if kind == "mixed" and kids:
                    # one statement naming a sub module of t and a plain name of t: imports t.<kid> and t
                    k = rnd.choice(kids).rsplit(".", 1)[1]
                    lines.append(f"from {t} import " + rnd.choice([f"{k}, some_function", f"some_function, {k}"]))
                else:
                    lines.append(f"from {t} import {'*' if kind == 'star' else 'some_function'}")
            else:
                lines.append(render_import(rnd, root, f, t, targets, strip_prefix)[0])
        lines.append("def some_function():\n    return 1")
        spec_files[f] = "\n".join(lines) + "\n"
    spec = {"root": root, "dirs": [d for d in dirs if d], "files": spec_files}
    if extras:
        if rnd.random() < 0.5:
            d = rnd.choice(dirs)
            spec["files"][(d + "/" if d else "") + "README.txt"] = "import proj.nothing\n"
        if rnd.random() < 0.4:
            d = rnd.choice(dirs)
            spec["dirs"].append((d + "/" if d else "") + "emptydir")
    return spec


def relativise_all(spec, parent_rel, rnd, prob=0.6):
    """Rewrites absolute imports in ALL files: names below the directory `parent_rel` ('' = root) are written
    relative to it ('import proj.a.x' -> 'import a.x').  Scanning each sub-directory of that parent as
    module_path then sees the same written names in different roles (internal in one scan, external in another)."""
    root = spec["root"]
    parent = mod_of(root, parent_rel)
    n = 0
    for f, src in list(spec["files"].items()):
        if not f.endswith(".py"):
            continue
        out = []
        for line in src.split("\n"):
            for kw in ("import ", "from "):
                if line.startswith(kw + parent + ".") and rnd.random() < prob:
                    rest = line[len(kw) + len(parent) + 1 :]
                    if rest.split(" ")[0].split(".")[0].isidentifier():
                        line = kw + rest
                        n += 1
                    break
            out.append(line)
        spec["files"][f] = "\n".join(out)
    return n


def relativise(spec, mp_rel, rnd, prob=0.6):
    """Rewrites (in place) some absolute imports of the files below module_path `mp_rel` so that they are
    written relative to module_path's parent directory (the second spelling C04 says must resolve):
    'import proj.pkg.sub.m' -> 'import sub.m' for module_path proj/pkg/sub.  Returns the number of rewrites."""
    if not mp_rel:
        return 0
    root = spec["root"]
    parent = mod_of(root, os.path.dirname(mp_rel))
    mpname = mod_of(root, mp_rel)
    n = 0
    for f, src in list(spec["files"].items()):
        if not f.startswith(mp_rel + "/") or not f.endswith(".py"):
            continue
        out = []
        for line in src.split("\n"):
            for kw in ("import ", "from "):
                if line.startswith(kw + mpname) and (line[len(kw) + len(mpname) :][:1] in (".", " ", "")) and rnd.random() < prob:
                    line = kw + line[len(kw) + len(parent) + 1 :]
                    n += 1
                    break
            out.append(line)
        spec["files"][f] = "\n".join(out)
    return n


def all_dirs(spec):
    """Every directory at or below root (relative paths, '' = root) that exists in the spec."""
    ds = {""}
    for d in spec.get("dirs", []):
        parts = d.split("/")
        for i in range(1, len(parts) + 1):
            ds.add("/".join(parts[:i]))
    for f in spec["files"]:
        parts = f.split("/")[:-1]
        for i in range(1, len(parts) + 1):
            ds.add("/".join(parts[:i]))
    return sorted(ds)
