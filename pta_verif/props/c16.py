"""C16 - layer definitions are well-formed: one layer per module, unique names.

Deciding step: trace monitors (monitors_trace.arch_hook / layer_rule_hook): every
LayeredArchitecture / LayerRule builder call is fed to the specification automata A-ARCH /
A-LAYERRULE; a call the automaton classifies as violating must be rejected with
ImproperlyConfigured at that call, and every accepted definition must read back (str(), [layer])
as exactly the supplied layers and modules in order.
"""
from __future__ import annotations

import itertools
import random

from ..monitors import HUB

ID = "C16"
LEVEL = "exploration"
TECHNIQUE = "online trace monitor: specification automata (A-ARCH, A-LAYERRULE) fed by every builder call; exhaustive enumeration of call sequences pruned at the first raise"
LEVEL_TEXT = (
    "Held on every observed builder call: all call sequences over {layer(A|B), containing_modules(str m|str n|[m]|[n]|[m,n]|[n,m]), "
    "have_modules_with_names_matching(r), with_layer()} up to the tier's length (quick 5, thorough 6) and all LayerRule chains up to length 6/7 were "
    "enumerated completely (pruned at the first rejected call); violating calls were rejected with ImproperlyConfigured at the call, accepted "
    "definitions read back exactly. Random longer sequences in addition."
)
LEVEL_NOTE = "The automata are written from the documentation; acceptance of well-formed calls is not demanded by the property (counted as wellformed_rejected, never alarmed)."
LEVEL_TEXT += ' The architecture vocabulary is repeated over module names that change under NFKC or differ only in case.'
RULE = "an evaluation = one builder call observed by the trace monitor; a case = one call sequence; non-trivial = sequence containing at least one violating call or >= 2 accepted definitions; distinct = distinct sequences"
ASSUMPTIONS = ["module names are multi-character so that the string/list distinction is observable", "a rejected call leaves the builder unchanged (sequences are pruned at the first raise)"]
SHARD_TIMEOUT = {"quick": 900, "thorough": 3000}

ARCH_VOCAB = [
    ("layer", "A"), ("layer", "B"),
    ("containing_modules", "mod_m"), ("containing_modules", "mod_n"),
    ("containing_modules", ["mod_m"]), ("containing_modules", ["mod_n"]), ("containing_modules", ["mod_m", "mod_n"]), ("containing_modules", ["mod_n", "mod_m"]), ("containing_modules", []),
    ("have_modules_with_names_matching", "mod_.*"), ("with_layer", None),
]
RULE_VOCAB = [
    ("based_on", "ARCH"), ("layers_that", None), ("are_named", "A"), ("are_named", "B"), ("are_named", ["A", "B"]),
    ("should", None), ("should_only", None), ("should_not", None),
    ("access_layers_that", None), ("be_accessed_by_layers_that", None), ("access_layers_except_layers_that", None),
    ("be_accessed_by_layers_except_layers_that", None), ("access_any_layer", None), ("be_accessed_by_any_layer", None),
    # a layer name the architecture does not define (as a second subject / inside a batch it is still a violation of the
    # one-subject rule and has to be rejected with a configuration error, not with whatever the lookup raises)
    ("are_named", "Z"), ("are_named", ["A", "Z"]),
]


# the same vocabulary over module names that are legal identifiers but change under Unicode normalisation (NFKC) or
# differ only in case: a name is the exact string the user supplied
ALT_NAMES = [("\ufb01le_store", "\u00b5_service"), ("Mod", "mod"), ("\uff44\uff41\uff54\uff41", "data")]


def alt_vocab(pair):
    m = {"mod_m": pair[0], "mod_n": pair[1]}
    sub = lambda a: m.get(a, a) if isinstance(a, str) else [m.get(x, x) for x in a] if isinstance(a, list) else a  # noqa: E731
    return [(n, sub(a)) if n == "containing_modules" else (n, a) for n, a in ARCH_VOCAB]


ALL_SHARDS_UNDER_PROFILES = ("optimized",)  # every call sequence again under python -O (no assert statements)


def plan(tier, seed):
    la, lr = (5, 6) if tier == "quick" else (6, 7)
    specs = [{"kind": "arch", "len": la, "first": i} for i in range(len(ARCH_VOCAB))]
    specs += [{"kind": "arch_alt", "len": la - 1, "pair": i} for i in range(len(ALT_NAMES))]
    specs += [{"kind": "rule", "len": lr, "third": i} for i in range(len(RULE_VOCAB))]
    specs += [{"kind": "random", "n": 1500 if tier == "quick" else 150000} for _ in range(2 if tier == "quick" else 8)]
    return specs


KEYWORD_EVERY = [0]  # every 4th builder call with an argument passes it by its documented parameter name


def _apply(obj, sym):
    name, arg = sym
    if arg is None:
        return getattr(obj, name)()
    value = list(arg) if isinstance(arg, list) else arg
    KEYWORD_EVERY[0] += 1
    if KEYWORD_EVERY[0] % 4 == 0 and name != "based_on":
        import inspect

        f = getattr(obj, name)
        try:
            pname = next(iter(inspect.signature(f).parameters))
        except (TypeError, ValueError, StopIteration):
            return f(value)
        HUB.acc.count("builder_calls_with_the_argument_passed_by_keyword")
        return f(**{pname: value})
    return getattr(obj, name)(value)


def run_arch_sequence(seq, acc):
    """Executes the sequence on a fresh builder; returns index of the first raising call or None."""
    from pytestarch import LayeredArchitecture

    HUB.case = {"kind": "arch", "seq": seq}
    arch = LayeredArchitecture()
    for i, sym in enumerate(seq):
        try:
            _apply(arch, sym)
        except Exception:  # noqa: BLE001 (judged by the trace monitor)
            return i
    return None


def fresh_arch():
    from pytestarch import LayeredArchitecture

    return LayeredArchitecture().layer("A").containing_modules(["mod_m"]).layer("B").containing_modules(["mod_n"])


def run_rule_sequence(seq, acc):
    from pytestarch import LayerRule

    HUB.case = {"kind": "rule", "seq": seq}
    arch = fresh_arch()
    r = LayerRule()
    for i, sym in enumerate(seq):
        try:
            if sym[0] == "based_on":
                r.based_on(arch)
            else:
                _apply(r, sym)
        except Exception:  # noqa: BLE001
            return i
    return None


def dfs(prefix, vocab, maxlen, runner, acc):
    v0, d0 = acc.counters["c16_arch_violating_calls"] + acc.counters["c16_rule_violating_calls"], acc.counters["c16_accepted_definitions_checked"]
    stop = runner(prefix, acc)
    acc.evaluated()
    acc.count("sequences")
    v1, d1 = acc.counters["c16_arch_violating_calls"] + acc.counters["c16_rule_violating_calls"], acc.counters["c16_accepted_definitions_checked"]
    if v1 > v0 or len(prefix) >= 2:
        acc.nontrivial({"s": prefix})
    if stop is not None:
        acc.count("sequences_rejected_at_call")
        return
    acc.count("sequences_accepted")
    if len(prefix) >= maxlen:
        return
    for sym in vocab:
        dfs(prefix + [sym], vocab, maxlen, runner, acc)


def run_shard(spec, acc):
    if spec["kind"] == "arch":
        dfs([ARCH_VOCAB[spec["first"]]], ARCH_VOCAB, spec["len"], run_arch_sequence, acc)
        acc.flags["exhaustive_arch"] = True
        if spec["first"] == 0:
            acc.sample({"kind": "arch sequence", "calls": [["layer", "A"], ["containing_modules", "mod_m"], ["layer", "B"], ["containing_modules", "mod_m"]], "expected": "last call rejected with ImproperlyConfigured"})
    elif spec["kind"] == "arch_alt":
        vocab = alt_vocab(ALT_NAMES[spec["pair"]])
        for first in vocab:
            dfs([first], vocab, spec["len"], run_arch_sequence, acc)
        acc.count("sequences_over_normalisation_sensitive_names")
    elif spec["kind"] == "rule":
        # every live chain starts with based_on, layers_that (anything else is rejected at once; those prefixes are run too)
        first_two = [RULE_VOCAB[0], RULE_VOCAB[1]]
        if spec["third"] == 0:
            for a in RULE_VOCAB:
                dfs([a], [], 1, run_rule_sequence, acc)
                dfs([RULE_VOCAB[0], a], [], 2, run_rule_sequence, acc)
        dfs(first_two + [RULE_VOCAB[spec["third"]]], RULE_VOCAB, spec["len"], run_rule_sequence, acc)
        acc.flags["exhaustive_rule_chains"] = True
    else:
        rnd = random.Random(spec["seed"])
        for i in range(spec["n"]):
            if i % 25 == 0:
                long_lived_process(rnd, acc)
            if i % 10 == 3:
                subclassed_builder(rnd, acc)
            if rnd.random() < 0.15:
                kind = rnd.choice(["arch", "arch", "rule"])
                k = rnd.randint(2, 3)
                if kind == "arch":
                    seqs = [[rnd.choice(ARCH_VOCAB) for _ in range(rnd.randint(3, 8))] for _ in range(k)]
                else:
                    seqs = [[RULE_VOCAB[0], RULE_VOCAB[1]] + [rnd.choice(RULE_VOCAB) for _ in range(rnd.randint(2, 6))] for _ in range(k)]
                schedule = [j for j, q in enumerate(seqs) for _ in q]
                rnd.shuffle(schedule)
                interleaved_builders(seqs, schedule, kind, acc)
                acc.nontrivial({"s": seqs, "o": schedule})
                acc.count("random_sequences")
                continue
            if rnd.random() < 0.6:
                seq = [rnd.choice(ARCH_VOCAB) for _ in range(rnd.randint(6, 12))]
                seq = [("layer", rnd.choice(["A", "B", "C", "D", "", "a"])) if s[0] == "layer" else s for s in seq]
                # continue after a rejected call as well: the builder must stay consistent
                from pytestarch import LayeredArchitecture

                HUB.case = {"kind": "arch-continue", "seq": seq}
                arch = LayeredArchitecture()
                scribble = rnd.random() < 0.5
                for sym in seq:
                    own = list(sym[1]) if isinstance(sym[1], list) else None
                    try:
                        if own is not None:
                            getattr(arch, sym[0])(own)
                        else:
                            _apply(arch, sym)
                    except Exception:  # noqa: BLE001
                        pass
                    if own is not None and scribble:
                        # the list handed over is the caller's: emptied / extended after the call, it must not change
                        # what the architecture recorded
                        own.clear() if rnd.random() < 0.5 else own.append(rnd.choice(["mod_m", "mod_n"]))
                        acc.count("lists_scribbled_on_after_the_call")
                    acc.evaluated()
                if scribble:
                    try:
                        str(arch)  # read back once more at the end (the trace hook re-reads accepted definitions)
                        arch.layer("ZZ_probe")
                    except Exception:  # noqa: BLE001
                        pass
            else:
                seq = [RULE_VOCAB[0], RULE_VOCAB[1]] + [rnd.choice(RULE_VOCAB) for _ in range(rnd.randint(3, 8))]
                run_rule_sequence(seq, acc)
                acc.evaluated()
            acc.nontrivial({"s": seq})
            acc.count("random_sequences")


def long_lived_process(rnd, acc, forced=None):
    """Architecture definitions in a process that defines many of them (one per test module of a big suite, a plugin that
    keeps definitions around): (a) a definition is started, any number of OTHER architectures are defined completely, then
    the first one is continued - with a module it already has (to be rejected) and with a new one (to be accepted); (b)
    several definitions are created up front and then written and dropped one after the other, so that the lists of a
    later one live where the lists of a dead one were.  Every call is judged by the trace monitor against the history of
    the object it was made on."""
    import gc

    from pytestarch import LayeredArchitecture

    plan_ = forced["plan"] if forced else {"others": rnd.choice([0, 3, 31, 32, 33, 40, 70, 140]), "keep": rnd.random() < 0.5, "string": rnd.random() < 0.5, "upfront": rnd.randint(2, 4), "layers": rnd.randint(1, 3), "collect": rnd.random() < 0.5, "as_list": rnd.random() < 0.7}
    HUB.case = {"kind": "long-lived", "plan": plan_}
    first = LayeredArchitecture().layer("A").containing_modules(["mod_m", "mod_n"])
    kept = []
    for k in range(plan_["others"]):
        o = LayeredArchitecture().layer("A").containing_modules([f"p{k}.m", "mod_m"] if k % 2 else f"p{k}.m").layer("B").containing_modules([f"p{k}.n"])
        if plan_["keep"]:
            kept.append(o)
        acc.evaluated(4)
    for arg in ("mod_m" if plan_["string"] else ["mod_q", "mod_m"], "mod_q" if plan_["string"] else ["mod_q"]):
        try:
            first.layer("B" if arg in ("mod_m", ["mod_q", "mod_m"]) else "C")
            first.containing_modules(arg)
        except Exception:  # noqa: BLE001  (judged by the trace monitor)
            pass
        acc.evaluated(2)
    acc.count("definitions_continued_after_other_architectures_were_defined")
    del first, kept
    # (b)
    archs = [LayeredArchitecture() for _ in range(plan_["upfront"])]
    for j in range(len(archs)):
        a = archs[j]
        try:
            for i in range(plan_["layers"]):
                a.layer(f"L{i}")
                a.containing_modules([f"q{j}.m{i}"] if plan_["as_list"] else f"q{j}.m{i}")
            a.layer("one_more")
            a.containing_modules(rnd.choice([[f"q{j}.m0"], f"q{j}.m0"]) if forced is None else [f"q{j}.m0"])  # already in L0: to be rejected
        except Exception:  # noqa: BLE001
            pass
        acc.evaluated(2 * plan_["layers"] + 2)
        archs[j] = a = None
        if plan_["collect"]:
            gc.collect()
    acc.count("definitions_created_up_front_and_written_one_after_the_other", plan_["upfront"])


def subclassed_builder(rnd, acc, forced=None):
    """A user subclass of LayeredArchitecture that overrides the two definition methods - it qualifies every module name
    with the application's base package and delegates to the base class, for the string form and for the list form alike.
    The base class sees each definition exactly once; what it records is what it was handed."""
    from pytestarch import LayeredArchitecture

    class Qualified(LayeredArchitecture):
        def containing_modules(self, modules):
            if isinstance(modules, list):
                return super().containing_modules(["app." + m for m in modules])
            return super().containing_modules("app." + modules)

        def have_modules_with_names_matching(self, regex):
            return super().have_modules_with_names_matching("app\\." + regex)

    seq = forced["seq"] if forced else [rnd.choice(ARCH_VOCAB) for _ in range(rnd.randint(4, 10))]
    seq = [tuple(x) if not isinstance(x[1], list) else (x[0], x[1]) for x in seq]
    HUB.case = {"kind": "subclassed", "seq": seq}
    arch = Qualified()
    for sym in seq:
        try:
            _apply(arch, sym)
        except Exception:  # noqa: BLE001  (judged by the trace monitor)
            pass
        acc.evaluated()
    try:
        str(arch)
    except Exception:  # noqa: BLE001
        pass
    acc.count("definitions_written_through_a_user_subclass")


def interleaved_builders(seqs, schedule, kind, acc):
    """Two or three builders of the same class executing their own call sequences with the calls interleaved (continuing
    after rejected calls): the trace monitor judges every call against the history of the object it was made on."""
    from pytestarch import LayeredArchitecture, LayerRule

    HUB.case = {"kind": "interleaved", "of": kind, "seqs": seqs, "schedule": schedule}
    objs = [LayeredArchitecture() if kind == "arch" else LayerRule() for _ in seqs]
    archs = [fresh_arch() for _ in seqs] if kind == "rule" else None
    pos = [0] * len(seqs)
    for i in schedule:
        if pos[i] >= len(seqs[i]):
            continue
        sym = seqs[i][pos[i]]
        pos[i] += 1
        try:
            if sym[0] == "based_on":
                objs[i].based_on(archs[i])
            else:
                _apply(objs[i], sym)
        except Exception:  # noqa: BLE001 (judged by the trace monitor)
            if kind == "rule":
                # a rejected LayerRule call ends that chain (as in the exhaustive sweep)
                pos[i] = len(seqs[i])
        acc.evaluated()
        if all(p >= len(q) for p, q in zip(pos, seqs)):
            break
    acc.count("builders_driven_interleaved", len(seqs))


def replay(case, acc):
    if case["kind"] == "subclassed":
        return subclassed_builder(random.Random(0), acc, forced=case)
    if case["kind"] == "long-lived":
        return long_lived_process(random.Random(0), acc, forced=case)
    if case["kind"] == "interleaved":
        seqs = [[tuple(x) if not isinstance(x[1], list) else (x[0], x[1]) for x in q] for q in case["seqs"]]
        return interleaved_builders(seqs, case["schedule"], case["of"], acc)
    seq = [tuple(s) if not isinstance(s[1], list) else (s[0], s[1]) for s in case["seq"]]
    if case["kind"] == "rule":
        run_rule_sequence(seq, acc)
    elif case["kind"] == "arch":
        run_arch_sequence(seq, acc)
    else:
        from pytestarch import LayeredArchitecture

        arch = LayeredArchitecture()
        HUB.case = case
        for sym in seq:
            try:
                _apply(arch, sym)
            except Exception:  # noqa: BLE001
                pass


def floors(acc, tier):
    why = []
    for c, n in (("c16_arch_violating_calls", 1000), ("c16_rule_violating_calls", 100), ("c16_accepted_definitions_checked", 1000), ("sequences", 5000), ("builders_driven_interleaved", 100), ("definitions_continued_after_other_architectures_were_defined", 50), ("definitions_written_through_a_user_subclass", 100), ("definitions_created_up_front_and_written_one_after_the_other", 100)):
        if acc.counters[c] < n:
            why.append(f"{c}: only {acc.counters[c]}")
    h = acc.hists.get("c16_violating_kind", {})
    for k in ("duplicate module via string", "duplicate module via list", "second subject layer", "subject layers given in batch", "second architecture", "layer rule without architecture", "layer name reused"):
        if h.get(k, 0) == 0:
            why.append(f"violating situation never forced: {k}")
    acc.flags["exhaustive"] = bool(acc.flags.get("exhaustive_arch")) and bool(acc.flags.get("exhaustive_rule_chains"))
    acc.flags["exhaustive_subspaces"] = "all LayeredArchitecture call sequences up to the tier's length over an 11-symbol vocabulary and all LayerRule chains over a 14-symbol vocabulary, pruned at the first rejected call"
    return why
