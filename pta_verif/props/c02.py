"""C02 - every import statement in a scanned file becomes an import edge, only those.

Deciding step: online post-condition on get_evaluable_architecture (monitors_more._judge_scan):
the import edges of the built graph are compared with R-SCAN's reading of the files on disk
(ast.walk over ast.parse, so every statement position is covered by construction).
Workload: statement positions enumerated from the running interpreter's grammar, nested,
x every import form, each statement importing its own unique target module; plus random projects.
"""
from __future__ import annotations

import ast
import random

from .. import pyposgen, trees
from ..drive import run  # noqa: F401
from ..monitors import HUB
from ..monitors_more import attribute_scan_findings

ID = "C02"
LEVEL = "exploration"
TECHNIQUE = "online reference-scanner post-condition (R-SCAN, ast.walk based) on get_evaluable_architecture; grammar-enumerated statement positions x import forms with unique targets"
LEVEL_TEXT = (
    "Held on every observed scan: each import statement found by an independent ast.walk reading of the scanned files has its edge, "
    "and every internal import edge is accounted for by a statement. Complete over all nestings (depth <= 2 quick, <= 3 thorough) of the "
    "statement-list positions offered by the interpreter's own grammar x 12 import forms; random projects beyond."
)
LEVEL_NOTE = "Trusts R-SCAN (refmodel/scan.py) and Python's ast module; own-ancestor-package imports are exempt as the property says."
LEVEL_TEXT += ' Import forms include one statement that imports a sub module and a plain name of the same package (absolute and relative).'
LEVEL_TEXT += ' Hostile sources are literal bytes (UTF-8 BOM, PEP 263 declaration, CRLF, form feed, PEP 695 syntax, 60-deep nesting). Extra shards scan random projects (a quarter of them wide and deep) under independently drawn options - file exclusions, level limit, kept externals with external exclusions, module_path below the root, module-object entry point - judged by the same deciding steps. Name pools include unusual legal identifiers (non-ASCII, combining marks, U+00B7, case / zero-padding twins, py*/init* names).'
RULE = (
    "an evaluation = one import statement (alias) checked against the built graph; a case = one (nesting path, import form) pair or one "
    "random project; non-trivial = the statement names an internal scanned module other than the importer's ancestors (an edge is required); "
    "distinct = distinct (path, form) pairs / distinct project digests"
)
ASSUMPTIONS = [
    "file-system exotica (x.py beside x/, dotted directory names, symlinks, syntax errors, relative imports beyond the top level) are not generated; source encodings: UTF-8 with and without BOM and one PEP 263 latin-1 file",
    "positions whose node class the generic builder cannot instantiate are reported as unbuilt_positions and make the run inconclusive",
]
SHARD_TIMEOUT = {"quick": 900, "thorough": 3000}

FORMS = [
    "import", "import-as", "import-multi", "from-submodule", "from-name", "from-star",
    "rel2-submodule", "rel2-name", "rel1-nomod", "rel1-subpkg-submodule", "rel1-name", "rel1-star",
    # one statement importing a sub module AND a plain name of the same package: names both P.sub and P
    "from-mixed", "from-mixed-rev", "rel1-mixed",
]
PATHS_PER_PROJECT = 40


class Alloc:
    def __init__(self):
        self.n = {"t": 0, "s": 0, "u": 0, "m": 0, "q": 0}
        self.files = {}

    def new(self, fam):
        i = self.n[fam]
        self.n[fam] += 1
        if fam in ("m", "q"):  # a package of its own with one sub module
            d, mod = (f"mx{i}", f"proj.mx{i}") if fam == "m" else (f"pk/mq{i}", f"proj.pk.mq{i}")
            self.files[f"{d}/__init__.py"] = "name = 1\n"
            self.files[f"{d}/sub.py"] = "name = 1\n"
            return mod
        rel, mod = {
            "t": (f"tg/t{i}.py", f"proj.tg.t{i}"),
            "s": (f"pk/s{i}.py", f"proj.pk.s{i}"),
            "u": (f"pk/sub/u{i}.py", f"proj.pk.sub.u{i}"),
        }[fam]
        self.files[rel] = "name = 1\n"
        return mod


def stmts_for(form, alloc):
    """-> (source text of the statement, [expected importee modules])."""
    if form == "import":
        t = alloc.new("t")
        return f"import {t}", [t]
    if form == "import-as":
        t = alloc.new("t")
        return f"import {t} as al", [t]
    if form == "import-multi":
        t1, t2 = alloc.new("t"), alloc.new("t")
        return f"import {t1}, {t2}", [t1, t2]
    if form == "from-submodule":
        t = alloc.new("t")
        return f"from proj.tg import {t.rsplit('.', 1)[1]}", [t]
    if form == "from-name":
        t = alloc.new("t")
        return f"from {t} import name", [t]
    if form == "from-star":
        t = alloc.new("t")
        return f"from {t} import *", [t]
    if form == "rel2-submodule":
        t = alloc.new("t")
        return f"from ..tg import {t.rsplit('.', 1)[1]}", [t]
    if form == "rel2-name":
        t = alloc.new("t")
        return f"from ..tg.{t.rsplit('.', 1)[1]} import name", [t]
    if form == "rel1-nomod":
        t = alloc.new("s")
        return f"from . import {t.rsplit('.', 1)[1]}", [t]
    if form == "rel1-subpkg-submodule":
        t = alloc.new("u")
        return f"from .sub import {t.rsplit('.', 1)[1]}", [t]
    if form == "rel1-name":
        t = alloc.new("s")
        return f"from .{t.rsplit('.', 1)[1]} import name", [t]
    if form == "rel1-star":
        t = alloc.new("s")
        return f"from .{t.rsplit('.', 1)[1]} import *", [t]
    if form == "from-mixed":
        p = alloc.new("m")
        return f"from {p} import sub, name", [p + ".sub", p]
    if form == "from-mixed-rev":
        p = alloc.new("m")
        return f"from {p} import name, sub as s2", [p + ".sub", p]
    if form == "rel1-mixed":
        p = alloc.new("q")
        return f"from .{p.rsplit('.', 1)[1]} import sub, name", [p + ".sub", p]
    raise ValueError(form)


def project_for(paths, importer_rel="pk/imp.py"):
    """One project whose importer file holds, for every path, all forms.  Returns
    (spec, table) with table[(importee)] = (path label, form)."""
    alloc = Alloc()
    body = []
    table = {}
    for path in paths:
        inner = []
        in_scope = any(c in ("FunctionDef", "AsyncFunctionDef", "ClassDef", "AsyncFor", "AsyncWith") for step in path for c, _ in step)
        for form in FORMS:
            if form.endswith("star") and in_scope:
                continue  # 'import *' is only valid at module level
            src, targets = stmts_for(form, alloc)
            inner.extend(ast.parse(src).body)
            for t in targets:
                table[t] = (pyposgen.path_label(path), form)
        body.extend(pyposgen.nest(path, inner))
    src = pyposgen.source(body)
    files = {"__init__.py": "", "tg/__init__.py": "", "pk/__init__.py": "", "pk/sub/__init__.py": "", importer_rel: src}
    files.update(alloc.files)
    return {"root": "proj", "dirs": [], "files": files}, table


def mechanism(path_label, form):
    for step in path_label.split(" > "):
        for part in step.split("/"):
            if "." in part and part != "Module.body" and not part.endswith(".body"):
                return f"position:{part}"
    return f"form:{form}"


def check_positions_project(paths, acc, importer_rel="pk/imp.py"):
    from pytestarch import get_evaluable_architecture

    spec, table = project_for(paths, importer_rel)
    root = trees.write_tree(spec)
    try:
        HUB.case = {"kind": "positions", "paths": [[list(s) for s in p] for p in paths], "importer": importer_rel}
        get_evaluable_architecture(root, root)
        se = HUB.scan_events[-1]
        importer = trees.mod_of("proj", importer_rel)
        got = {b for a, b in se.imps if a == importer}
        for t, (pl, form) in table.items():
            acc.evaluated()
            acc.hist("form", form)
            acc.nontrivial({"p": pl, "f": form, "i": importer_rel})
            if t not in got:
                HUB.violation("C02", mechanism(pl, form), f"import statement at [{pl}] of form '{form}' produced no edge {importer} -> {t}", {"path": pl, "form": form, "importer": importer, "target": t})
        for b in sorted(got - set(table)):
            if importer.startswith(b + "."):
                continue
            HUB.violation("C02", "edge-extra:unexplained", f"edge {importer} -> {b} that no statement accounts for", {"importer": importer, "target": b})
        for p in paths:
            for step in p:
                acc.hist("position_covered", pyposgen.pos_label(step))
        acc.count("position_projects")
        # the generic monitor judged the same scan; anything it sees beyond the table is attributed too
        for c, k, text, detail in se.findings:
            if c == "edge-extra":
                HUB.violation("C02", f"{c}:{k}", text, detail)
    finally:
        trees.remove_tree(root)


def plan(tier, seed):
    depth = 2 if tier == "quick" else 3
    nsh = 8 if tier == "quick" else 16
    specs = [{"kind": "positions", "depth": depth, "part": i, "parts": nsh} for i in range(nsh)]
    specs += [{"kind": "random", "n": 120 if tier == "quick" else 2500} for _ in range(6 if tier == "quick" else 16)]
    specs.append({"kind": "hostile"})
    return specs


def run_shard(spec, acc):
    if spec["kind"] == "positions":
        base, ok, paths, unbuilt = pyposgen.build_all(spec["depth"])
        acc.flags["positions_enumerated"] = len(base) if spec["part"] == 0 else 0
        acc.flags["positions_built"] = len(ok) if spec["part"] == 0 else 0
        acc.flags["paths_total"] = len(paths) if spec["part"] == 0 else 0
        for u in unbuilt:
            acc.mark_inconclusive(f"unbuilt position {u}")
        mine = [p for i, p in enumerate(paths) if i % spec["parts"] == spec["part"]]
        for i in range(0, len(mine), PATHS_PER_PROJECT):
            importer = "pk/imp.py" if (i // PATHS_PER_PROJECT) % 4 else "pk/__init__.py"
            check_positions_project(mine[i : i + PATHS_PER_PROJECT], acc, importer)
        acc.flags["exhaustive_positions"] = True
        if spec["part"] == 0 and mine:
            acc.sample({"kind": "positions", "path": pyposgen.path_label(mine[min(30, len(mine) - 1)]), "forms": FORMS, "importer": "proj/pk/imp.py"})
    elif spec["kind"] == "random":
        random_projects(spec, acc)
    else:
        hostile(acc)


def scan_and_attribute(spec, acc, case, mp_rel=""):
    from pytestarch import get_evaluable_architecture

    root = trees.write_tree(spec)
    try:
        HUB.case = case
        mp = root + ("/" + mp_rel if mp_rel else "")
        get_evaluable_architecture(root, mp)
        se = HUB.scan_events[-1]
        attribute_scan_findings(se, {"edge-missing": "C02", "edge-extra": "C02"}, case)
        n = len(se.model.statements) if se.model else 0
        acc.evaluated(n)
        for s in se.model.statements if se.model else []:
            acc.hist("random_form", s.form)
        if case.get("limits"):
            # the same project scanned again with several level limits in one process, then without one: every statement
            # still accounts for its (truncated) edge - only findings the unlimited scan does not show are attributed
            for k in case["limits"]:
                c2 = dict(case, level_limit=k)
                HUB.case = c2
                get_evaluable_architecture(root, mp, level_limit=k)
                attribute_scan_findings(HUB.scan_events[-1], {"edge-missing": "C02", "edge-extra": "C02"}, c2, baseline=se)
                acc.evaluated()
                acc.count("rescans_of_one_project_with_several_level_limits")
            HUB.case = case
            get_evaluable_architecture(root, mp)
            again = HUB.scan_events[-1]
            if again.state != se.state:
                HUB.violation("C02", "edge-set-changes-after-level-limited-scans", "the unlimited scan of a project differs after level-limited scans of the same project", {"imports_diff": sorted(again.imps ^ se.imps)[:12], "nodes_diff": sorted(again.nodes ^ se.nodes)[:12]})
        return se
    finally:
        trees.remove_tree(root)


def sibling_scans(rnd, acc):
    """All top-level packages of one project scanned one after the other in the same process, with imports
    written relative to their common parent: the same written name is internal in one scan and external in the
    next (state that leaks between scans shows up as a missing / extra edge)."""
    tspec = trees.random_project(rnd, depth=3, imports_per_file=(1, 4), externals=0.0, name_imports=0.2)
    n = trees.relativise_all(tspec, "", rnd, prob=0.8)
    tops = [d for d in trees.all_dirs(tspec) if d and "/" not in d]
    order = tops[:]
    rnd.shuffle(order)
    for mp_rel in order + order[:1]:
        case = {"kind": "random", "spec": tspec, "mp": mp_rel, "note": "sibling scan sequence"}
        scan_and_attribute(tspec, acc, case, mp_rel)
        acc.count("sibling_scans")
    acc.count("statements_written_relative_to_module_path_parent", n)


def rescans_after_edit(rnd, acc, forced=None):
    from .. import lazyscan

    lazyscan.rescan_after_edit(rnd, acc, "C02", {"edge-missing": "C02", "edge-extra": "C02"}, forced=forced)


def good_scan_after_failed_scan(rnd, acc, forced=None):
    """A scan that fails - a file with a syntax error, a relative import that reaches beyond the top-level package: the
    library raises, which no property objects to - followed, in the same process, by a scan of the repaired tree at the same
    path: the second architecture is judged against the files as they are then, as if the first call had never happened."""
    import os

    from pytestarch import get_evaluable_architecture

    if forced:
        spec, victim, poison = forced["spec"], forced["victim"], forced["poison"]
    else:
        spec = trees.random_project(rnd, depth=3, imports_per_file=(1, 4), externals=0.0, name_imports=0.2, extras=False)
        files = sorted(f for f in spec["files"] if f.endswith(".py"))
        victim = rnd.choice(files)
        mods = [trees.mod_of("proj", f) for f in files if all(p.isidentifier() for p in f[:-3].split("/"))]
        others = [m for m in mods if m != trees.mod_of("proj", victim)][:3]
        head = "".join(f"import {m}\n" for m in others)
        poison = rnd.choice([
            head + "from " + "." * (victim.count("/") + 3) + " import nowhere\n" + head,  # beyond the top-level package
            head + "def broken(:\n    pass\n" + head,  # syntax error
            head + "import \n" + head,
        ])
    case = {"kind": "good-after-failed", "spec": spec, "victim": victim, "poison": poison}
    broken = {"root": spec["root"], "dirs": list(spec["dirs"]), "files": dict(spec["files"], **{victim: poison})}
    root = trees.write_tree(broken, sub="FAILED")
    try:
        HUB.case = case
        HUB.scan_crash_expected = True
        try:
            get_evaluable_architecture(root, root)
            acc.count("poisoned_trees_that_were_scanned_without_an_error")
        except Exception as e:  # noqa: BLE001  (expected; whatever it is)
            acc.hist("failed_scan_exception", type(e).__name__)
            acc.count("failed_scans_followed_by_a_good_one")
        finally:
            HUB.scan_crash_expected = False
        with open(os.path.join(root, victim), "w", encoding="utf-8") as fh:
            fh.write(spec["files"][victim])
        get_evaluable_architecture(root, root)
        se = HUB.scan_events[-1]
        attribute_scan_findings(se, {"edge-missing": "C02", "edge-extra": "C02"}, case)
        acc.evaluated(len(se.model.statements) if se.model else 0)
    finally:
        trees.remove_tree(root)


def back_to_back_variants(rnd, acc, forced=None):
    """Several variants of one project - the same files and statements, but a module `P.n` of one variant is a plain name
    of `P` in another (its file is absent there) - scanned DIRECTLY one after the other before any result is looked at,
    once with all results kept and once with every second result dropped at once: what `from P import n` stands for must
    be decided per scan."""
    from .. import lazyscan

    if forced:
        variants, order = forced["variants"], forced["order"]
    else:
        base = trees.random_project(rnd, depth=3, imports_per_file=(1, 3), externals=0.0, name_imports=0.2, extras=False)
        leafs = [f for f in base["files"] if f.endswith(".py") and not f.endswith("__init__.py") and "/" in f and all(p.isidentifier() for p in f[:-3].split("/"))]
        if len(leafs) < 2:
            return
        picked = rnd.sample(leafs, min(len(leafs), rnd.randint(2, 4)))
        others = [f for f in base["files"] if f.endswith(".py") and f not in picked]
        for f in picked:  # make sure the statement in question exists, in a file that stays
            parent, leaf = trees.mod_of("proj", f).rsplit(".", 1)
            for imp in rnd.sample(others, min(len(others), 2)):
                me = trees.mod_of("proj", imp)
                if not (parent + ".").startswith(me + "."):
                    base["files"][imp] = f"from {parent} import {leaf}\n" + base["files"][imp]
        variants = []
        for _ in range(3):
            gone = set(rnd.sample(picked, rnd.randint(1, len(picked))))
            variants.append({"root": "proj", "dirs": list(base["dirs"]), "files": {f: s for f, s in base["files"].items() if f not in gone}})
        variants.append(base)
        order = [rnd.randrange(len(variants)) for _ in range(8)]
    case = {"kind": "back-to-back", "variants": variants, "order": order}
    roots = [trees.write_tree(v) for v in variants]
    try:
        for keep in (True, False):
            reqs = [((roots[i], roots[i]), {}, {"variant": i, "results_kept": keep}) for i in order]
            ses = lazyscan.burst_scans(reqs, "C02", {"edge-missing": "C02", "edge-extra": "C02"}, acc, case, keep=keep)
            for se in ses:
                if se is not None:
                    acc.evaluated(len(se.model.statements) if se.model else 0)
        acc.count("bursts_of_back_to_back_scans")
    finally:
        for r in roots:
            trees.remove_tree(r)


def random_projects(spec, acc):
    rnd = random.Random(spec["seed"])
    for i in range(spec["n"]):
        if i % 4 == 0:
            sibling_scans(rnd, acc)
        if i % 3 == 0:
            rescans_after_edit(rnd, acc)
        if i % 6 == 1:
            back_to_back_variants(rnd, acc)
        if i % 6 == 4:
            good_scan_after_failed_scan(rnd, acc)
        if i % 5 == 0:
            # the result of a scan is first used after the tree was removed / rewritten / the working directory changed
            from .. import lazyscan

            lazyscan.late_use_case(rnd, acc, "C02", {"edge-missing": "C02", "edge-extra": "C02"})
        tspec = trees.random_project(rnd, imports_per_file=(0, 4), externals=0.1, dangling=0.05)
        dirs = trees.all_dirs(tspec)
        mp_rel = rnd.choice(dirs) if rnd.random() < 0.4 else ""
        if mp_rel and rnd.random() < 0.7:
            acc.count("statements_written_relative_to_module_path_parent", trees.relativise(tspec, mp_rel, rnd))
        case = {"kind": "random", "spec": tspec, "mp": mp_rel}
        if i % 4 == 2:
            case["limits"] = rnd.sample([1, 2, 3, 4], rnd.randint(2, 3))
        se = scan_and_attribute(tspec, acc, case, mp_rel)
        if se.model and se.model.statements:
            acc.nontrivial({"s": tspec, "mp": mp_rel})
        acc.count("random_projects")
        if i % 37 == 0:
            acc.sample({"kind": "random project", "files": {k: v for k, v in list(tspec["files"].items())[:4]}, "module_path": mp_rel or "."})


HOSTILE = {
    "type_checking": "from typing import TYPE_CHECKING\nif TYPE_CHECKING:\n    import proj.tg.t0\n",
    "after_return": "def f():\n    return 1\n    import proj.tg.t0\n",
    "decorated": "import functools\n@functools.cache\ndef f():\n    import proj.tg.t0\n    return 1\n",
    "lambda_default": "def f(a=1, *b, c=2, **d) -> int:\n    x: int = 3\n    import proj.tg.t0\n",
    "nested_class_func": "class A:\n    class B:\n        def m(self):\n            def inner():\n                import proj.tg.t0\n            return inner\n",
    "semicolons": "x = 1; import proj.tg.t0; y = 2\n",
    "backslash": "import \\\n    proj.tg.t0\n",
    "parenthesised_from": "from proj.tg import (\n    t0,\n)\n",
    "long_file": "\n".join(f"v{i} = {i}" for i in range(3000)) + "\nimport proj.tg.t0\n",
    "docstring_first": '"""doc\nimport proj.tg.t1\n"""\nimport proj.tg.t0\n',
    "global_stmt": "def f():\n    global t0\n    import proj.tg.t0\n",
    "try_import_fallback": "try:\n    import nonexistent_lib\nexcept ImportError:\n    import proj.tg.t0\n",
    "while_else_break": "while True:\n    break\nelse:\n    import proj.tg.t0\n",
    "with_multiple": "with open('a') as f, open('b') as g:\n    import proj.tg.t0\n",
    "match_guard": "match 1:\n    case int(x) if x > 0:\n        import proj.tg.t0\n    case _:\n        pass\n",
    "comment_only_lines": "# import proj.tg.t1\nimport proj.tg.t0  # import proj.tg.t1\n",
    "string_import": "s = 'import proj.tg.t1'\nimport proj.tg.t0\n",
    # legal source encodings / layouts (literal bytes)
    "utf8_bom": {"hex": ("\ufeffimport proj.tg.t0\n").encode("utf-8").hex()},
    "utf8_bom_and_cookie": {"hex": ("\ufeff# -*- coding: utf-8 -*-\nimport proj.tg.t0\nname = 'gr\u00f6\u00dfe'\n").encode("utf-8").hex()},
    "coding_cookie_latin1": {"hex": ("# -*- coding: latin-1 -*-\nname = 'gr\u00f6\u00dfe'\nimport proj.tg.t0\n").encode("latin-1").hex()},
    "crlf_line_endings": {"hex": b"x = 1\r\nif x:\r\n    import proj.tg.t0\r\n".hex()},
    "form_feed_and_tabs": {"hex": b"\x0cdef f():\n\timport proj.tg.t0\n".hex()},
    "no_trailing_newline": "import proj.tg.t0",
    "unicode_identifiers": "gr\u00f6\u00dfe = 1\nclass \u0414\u0430\u043d\u043d\u044b\u0435:\n    import proj.tg.t0\n",
    "soft_keywords_as_names": "match = 1\ncase = 2\ntype = 3\nimport proj.tg.t0 as match\n",
    "type_alias_and_generics": "type X[T] = list[T]\ndef f[T](a: T) -> T:\n    import proj.tg.t0\n    return a\n",
    "deeply_nested": "".join("    " * i + "def f%d():\n" % i for i in range(60)) + "    " * 60 + "import proj.tg.t0\n",
    "same_module_many_times": "import proj.tg.t0\nimport proj.tg.t0 as again\nfrom proj.tg import t0\nfrom proj.tg import t0 as third\nfrom proj.tg.t0 import name, name as n2\n",
    "future_import_first": "from __future__ import annotations\nimport proj.tg.t0\n",
    "elif_chain_of_300": "x = 5\nif x == 0:\n    pass\n" + "".join(f"elif x == {i}:\n    pass\n" for i in range(1, 300)) + "else:\n    import proj.tg.t0\n",
    "import_in_the_250th_elif": "x = 5\nif x == 0:\n    pass\n" + "".join(f"elif x == {i}:\n    " + ("import proj.tg.t0" if i == 250 else "pass") + "\n" for i in range(1, 280)),
    "two_thousand_statements_before": "\n".join(f"def f{i}():\n    return {i}" for i in range(2000)) + "\nimport proj.tg.t0\n",
    "header_line_imports_only": "try: import proj.tg.t0\nexcept ImportError: pass\n",
    "semicolon_only_import": "x = 1; import proj.tg.t0\n",
    "if_header_line_import": "import_flag = True\nif import_flag: from proj.tg import t0\n",
    "fstring_nested_quotes": "x = f\"{'import proj.tg.t1'!r:>{10}}\"\nimport proj.tg.t0\n",
}


def hostile(acc):
    for name, src in HOSTILE.items():
        spec = {"root": "proj", "dirs": [], "files": {"__init__.py": "", "tg/__init__.py": "", "tg/t0.py": "", "tg/t1.py": "", "pk/__init__.py": "", "pk/imp.py": src}}
        case = {"kind": "hostile", "name": name, "spec": spec}
        acc.nontrivial({"h": name})
        acc.hist("hostile", name)
        try:
            se = scan_and_attribute(spec, acc, case)
        except Exception as e:  # noqa: BLE001  a legal source file must be scanned, not rejected
            HUB.case = case
            HUB.violation("C02", f"hostile:{name}:scan-raises-{type(e).__name__}", f"scanning a project with a legal source file raised {type(e).__name__}: {e}", {"source": src})
            continue
        got = {b for a, b in se.imps if a == "proj.pk.imp"}
        if got != {"proj.tg.t0"}:
            HUB.case = case
            HUB.violation("C02", f"hostile:{name}", f"expected exactly the edge proj.pk.imp -> proj.tg.t0, got {sorted(got)}", {"source": src, "got": sorted(got)})


def replay(case, acc):
    if case["kind"] == "positions":
        paths = [tuple(tuple(s) for s in p) for p in case["paths"]]
        check_positions_project(paths, acc, case["importer"])
    elif case["kind"] == "random":
        scan_and_attribute(case["spec"], acc, case, case["mp"])
    elif case["kind"] == "late-use":
        from .. import lazyscan

        lazyscan.replay(case, acc, "C02", {"edge-missing": "C02", "edge-extra": "C02"})
    elif case["kind"] == "rescan-after-edit":
        rescans_after_edit(random.Random(0), acc, forced=case)
    elif case["kind"] == "good-after-failed":
        good_scan_after_failed_scan(random.Random(0), acc, forced=case)
    elif case["kind"] == "back-to-back":
        back_to_back_variants(random.Random(0), acc, forced=case)
    else:
        HOSTILE_ONE = {case["name"]: case["spec"]["files"]["pk/imp.py"]}
        saved = dict(HOSTILE)
        HOSTILE.clear()
        HOSTILE.update(HOSTILE_ONE)
        try:
            hostile(acc)
        finally:
            HOSTILE.clear()
            HOSTILE.update(saved)


def floors(acc, tier):
    why = []
    if acc.flags.get("positions_enumerated", 0) < 20:
        why.append(f"only {acc.flags.get('positions_enumerated')} statement positions enumerated")
    cov = acc.hists.get("position_covered", {})
    if len(cov) < acc.flags.get("positions_built", 0):
        why.append("not every built position was covered")
    if acc.counters["statements_written_relative_to_module_path_parent"] < 10:
        why.append("too few imports written relative to module_path's parent")
    if acc.counters["rescans_after_in_place_edit"] < 20:
        why.append("too few re-scans after an in-place edit with restored timestamps")
    if acc.counters["rescans_of_one_project_with_several_level_limits"] < 50:
        why.append("too few projects re-scanned with several level limits in one process")
    if acc.counters["scan_results_first_used_after_a_change"] < 20:
        why.append("too few scan results first used after the tree / the working directory changed")
    if acc.counters["failed_scans_followed_by_a_good_one"] < 20:
        why.append(f"only {acc.counters['failed_scans_followed_by_a_good_one']} failed scans followed by a good one")
    if acc.counters["files_replaced_in_place_with_equal_size_and_time_stamp"] < 20:
        why.append("too few files replaced in place with equal size and time stamp")
    if acc.counters["scans_judged_after_a_burst_of_back_to_back_scans"] < 100:
        why.append("too few scans judged after a burst of back-to-back scans")
    if acc.counters["scans_judged"] < 20:
        why.append("too few scans judged by the monitor")
    for f in FORMS:
        if acc.hists.get("form", {}).get(f, 0) == 0:
            why.append(f"import form {f} never exercised")
    acc.flags["exhaustive"] = bool(acc.flags.get("exhaustive_positions"))
    acc.flags["exhaustive_subspaces"] = "all nestings of grammar-enumerated statement positions up to the tier's depth x all 12 import forms"
    return why
