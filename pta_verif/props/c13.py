"""C13 - undefined or incomplete specifications never produce a verdict.

Deciding step: trace monitors (monitors_trace): every fluent call is an event fed to a
specification automaton written from the documentation (A-RULE, A-LAYERRULE, diagram and
entry-point classifiers).  A history classified MUST_RAISE - or one that mentions a module, regex or
layer that does not exist - must end in an exception other than AssertionError; a verdict
(normal return or AssertionError) is the refuting observation.
"""
from __future__ import annotations

import itertools
import os
import random
import warnings
from pathlib import Path

from .. import trees
from ..drive import build, random_imports, random_tree, run
from ..monitors import HUB
from ..refmodel import automata as A
from . import c16

ID = "C13"
LEVEL = "exploration"
TECHNIQUE = "online trace monitor: specification automata classify every call history (MUST_RAISE / COMPLETE / UNSPECIFIED); exhaustive call-sequence enumeration + chain mutations + misspelt names + option combinations"
LEVEL_TEXT = (
    "Held on every observed history: all Rule call sequences up to the tier's length (quick 4, thorough 5) over the complete 17-symbol vocabulary, "
    "all LayerRule chains (length <= 5/6 after based_on) and all DiagramRule sequences, each followed by assert_applies; every single deletion, "
    "insertion of any vocabulary symbol, duplication and adjacent transposition of every canonical complete chain; misspelt / too-deep / below-the-level-limit module names and unmatched "
    "regexes in every position of every rule shape on random architectures; all presence combinations of the entry-point options. No MUST_RAISE "
    "history produced a verdict."
)
LEVEL_NOTE = "The automata are written from LANGUAGE_DEFINTION.md and the feature docs; classes the docs leave open (should+should_only, redundant or re-ordered complete chains) are UNSPECIFIED and skipped."
LEVEL_TEXT += ' Every canonical chain is additionally applied once, extended by each vocabulary symbol and applied again on the same object.'
LEVEL_TEXT += ' DiagramRule objects are re-configured after a valid application (re-based, tag-less file, file rewritten).'
RULE = "an evaluation = one assert_applies / entry-point call classified by the automaton; non-trivial = classified MUST_RAISE or naming something that does not exist; distinct = distinct call histories / (architecture, rule) pairs"
ASSUMPTIONS = ["any exception other than AssertionError counts as 'configuration or lookup error' (types are recorded in the evidence)", "a call that raised aborts the chain (sequences are pruned at the first raise)"]
SHARD_TIMEOUT = {"quick": 900, "thorough": 3400}

MODS = ["r", "r.a", "r.a.x", "r.b", "r.c"]
IMPS = [("r.a", "r.b"), ("r.a.x", "r.c")]

RULE_VOCAB = [
    ("modules_that", None),
    ("are_named", "r.a"), ("are_named", "r.b"), ("are_sub_modules_of", "r.a"),
    ("have_name_matching", r"^r\.b$"), ("have_name_containing", "*c"),
    ("should", None), ("should_only", None), ("should_not", None),
    ("import_modules_that", None), ("be_imported_by_modules_that", None),
    ("import_modules_except_modules_that", None), ("be_imported_by_modules_except_modules_that", None),
    ("import_anything", None), ("be_imported_by_anything", None),
    ("are_named", ["r.b", "r.c"]), ("have_name_matching", r"^zzz$"),
]
# an empty batch is no subject / object at all (only in the chain mutations, to keep the exhaustive sweep's size)
EMPTY_BATCHES = [("are_named", []), ("are_sub_modules_of", [])]


ALL_SHARDS_UNDER_PROFILES = ("optimized",)  # every call sequence again under python -O (no assert statements)


def plan(tier, seed):
    n = 4 if tier == "quick" else 5
    specs = [{"kind": "rule_seq", "len": n, "first": i} for i in range(len(RULE_VOCAB))]
    specs += [{"kind": "layer_seq", "len": 5 if tier == "quick" else 6, "third": i} for i in range(len(c16.RULE_VOCAB))]
    specs += [{"kind": "mutations", "part": i, "parts": 4} for i in range(4)] + [{"kind": "diagram"}, {"kind": "entry"}]
    specs += [{"kind": "misspelt", "n": 250 if tier == "quick" else 20000} for _ in range(4 if tier == "quick" else 12)]
    return specs


def _apply(obj, sym):
    name, arg = sym
    return getattr(obj, name)() if arg is None else getattr(obj, name)(list(arg) if isinstance(arg, list) else arg)


EV = None


def ev():
    global EV
    if EV is None:
        EV = build(MODS, IMPS)
    return EV


def run_rule_seq(seq, acc, evaluable=None):
    from pytestarch import Rule

    HUB.case = {"kind": "rule_seq", "seq": seq}
    r = Rule()
    for i, sym in enumerate(seq):
        try:
            _apply(r, sym)
        except Exception:  # noqa: BLE001
            return i
    before = acc.counters["c13_rule_evaluations"]
    run(r, evaluable or ev())
    acc.evaluated()
    return None


def run_rule_seq_applied_in_between(chain, extra, acc):
    """chain -> assert_applies -> one more builder call -> assert_applies on the SAME rule object: the second
    evaluation is classified from the whole call history, so a rule made contradictory after its first
    (valid) application must still be rejected."""
    from pytestarch import Rule

    HUB.case = {"kind": "rule_seq_reapplied", "seq": chain, "extra": extra}
    r = Rule()
    try:
        for sym in chain:
            _apply(r, sym)
    except Exception:  # noqa: BLE001
        return
    run(r, ev())
    try:
        _apply(r, extra)
    except Exception:  # noqa: BLE001
        acc.evaluated()
        return
    run(r, ev())
    acc.evaluated()
    acc.count("rule_histories_extended_after_application")


def run_layer_seq_applied_in_between(chain, extra, acc):
    from pytestarch import LayeredArchitecture, LayerRule

    HUB.case = {"kind": "layer_seq_reapplied", "seq": chain, "extra": extra}
    arch = LayeredArchitecture().layer("A").containing_modules(["r.a"]).layer("B").containing_modules(["r.b"])
    r = LayerRule()
    try:
        for sym in chain:
            r.based_on(arch) if sym[0] == "based_on" else _apply(r, sym)
    except Exception:  # noqa: BLE001
        return
    run(r, ev())
    try:
        r.based_on(arch) if extra[0] == "based_on" else _apply(r, extra)
    except Exception:  # noqa: BLE001
        acc.evaluated()
        return
    run(r, ev())
    acc.evaluated()
    acc.count("layer_histories_extended_after_application")


def dfs_rule(prefix, maxlen, acc):
    stop = run_rule_seq(prefix, acc)
    acc.count("rule_histories")
    if stop is not None:
        acc.evaluated()
    acc.nontrivial({"r": prefix})
    if stop is not None:
        acc.count("rule_histories_rejected_at_call")
        return
    if len(prefix) >= maxlen:
        return
    for sym in RULE_VOCAB:
        dfs_rule(prefix + [sym], maxlen, acc)


def run_layer_seq(seq, acc):
    from pytestarch import LayerRule

    HUB.case = {"kind": "layer_seq", "seq": seq}
    from pytestarch import LayeredArchitecture

    arch = LayeredArchitecture().layer("A").containing_modules(["r.a"]).layer("B").containing_modules(["r.b"])
    r = LayerRule()
    for i, sym in enumerate(seq):
        try:
            if sym[0] == "based_on":
                r.based_on(arch)
            else:
                _apply(r, sym)
        except Exception:  # noqa: BLE001
            return i
    run(r, ev())
    acc.evaluated()
    return None


def dfs_layer(prefix, maxlen, acc):
    stop = run_layer_seq(prefix, acc)
    acc.count("layer_histories")
    if stop is not None:
        acc.evaluated()
    acc.nontrivial({"l": prefix})
    if stop is not None:
        return
    if len(prefix) >= maxlen:
        return
    for sym in c16.RULE_VOCAB:
        dfs_layer(prefix + [sym], maxlen, acc)


def canonical_rule_chains():
    chains = []
    subj = [("are_named", "r.a"), ("are_sub_modules_of", "r.a"), ("have_name_matching", r"^r\.a$")]
    obj = [("are_named", "r.b"), ("are_named", ["r.b", "r.c"]), ("have_name_matching", r"^r\.b$")]
    verbs = [("should", None), ("should_only", None), ("should_not", None)]
    imps = [(n, None) for n in ("import_modules_that", "be_imported_by_modules_that", "import_modules_except_modules_that", "be_imported_by_modules_except_modules_that")]
    for s, v, i, o in itertools.product(subj, verbs, imps, obj):
        chains.append([("modules_that", None), s, v, i, o])
    for s, v in itertools.product(subj, verbs):
        for a in ("import_anything", "be_imported_by_anything"):
            chains.append([("modules_that", None), s, v, (a, None)])
    return chains


def canonical_layer_chains():
    chains = []
    verbs = [("should", None), ("should_only", None), ("should_not", None)]
    acc4 = [(n, None) for n in ("access_layers_that", "be_accessed_by_layers_that", "access_layers_except_layers_that", "be_accessed_by_layers_except_layers_that")]
    for v, a in itertools.product(verbs, acc4):
        chains.append([("based_on", "ARCH"), ("layers_that", None), ("are_named", "A"), v, a, ("are_named", "B")])
    for v in verbs:
        for a in ("access_any_layer", "be_accessed_by_any_layer"):
            chains.append([("based_on", "ARCH"), ("layers_that", None), ("are_named", "A"), v, (a, None)])
    return chains


def mutations(chain, vocab=()):
    out = []
    for i in range(len(chain) + 1):
        for sym in vocab:
            out.append(("insert", chain[:i] + [sym] + chain[i:]))
    for i in range(len(chain)):
        out.append(("delete", chain[:i] + chain[i + 1 :]))
        out.append(("duplicate", chain[: i + 1] + [chain[i]] + chain[i + 1 :]))
        if i + 1 < len(chain):
            out.append(("transpose", chain[:i] + [chain[i + 1], chain[i]] + chain[i + 2 :]))
    return out


def run_shard(spec, acc):
    (None if os.environ.get("PTA_WARNINGS_ARE_ERRORS") else warnings.simplefilter("ignore"))
    k = spec["kind"]
    if k == "rule_seq":
        dfs_rule([RULE_VOCAB[spec["first"]]], spec["len"], acc)
        acc.flags["exhaustive_rule_sequences"] = True
        if spec["first"] == 0:
            acc.sample({"kind": "rule history", "calls": [["modules_that"], ["are_named", "r.a"], ["should"], ["import_anything"], ["assert_applies"]], "automaton": "MUST_RAISE ('anything' with a verb other than should_not)"})
    elif k == "layer_seq":
        if spec["third"] == 0:
            for a in c16.RULE_VOCAB:
                dfs_layer([a], 1, acc)
                dfs_layer([c16.RULE_VOCAB[0], a], 2, acc)
        dfs_layer([c16.RULE_VOCAB[0], c16.RULE_VOCAB[1], c16.RULE_VOCAB[spec["third"]]], spec["len"], acc)
        acc.flags["exhaustive_layer_sequences"] = True
    elif k == "mutations":
        for ci, chain in enumerate(canonical_rule_chains()):
            if ci % spec["parts"] != spec["part"]:
                continue
            run_rule_seq(chain, acc)
            acc.count("canonical_chains")
            for pos in (1, len(chain) - 1):
                if chain[pos][0] in ("are_named", "are_sub_modules_of", "have_name_matching"):
                    for eb in EMPTY_BATCHES:
                        run_rule_seq(chain[:pos] + [eb] + chain[pos + 1 :], acc)
                        acc.count("rule_histories_with_an_empty_batch")
            for kind, m in mutations(chain, RULE_VOCAB):
                if run_rule_seq(m, acc) is not None:
                    acc.evaluated()
                acc.hist("mutation_kind", "rule:" + kind)
                acc.nontrivial({"m": m})
            for sym in RULE_VOCAB:
                run_rule_seq_applied_in_between(chain, sym, acc)
                acc.hist("mutation_kind", "rule:extended-after-application")
                acc.nontrivial({"m": chain, "x": sym})
        for ci, chain in enumerate(canonical_layer_chains()):
            if ci % spec["parts"] != spec["part"]:
                continue
            run_layer_seq(chain, acc)
            acc.count("canonical_chains")
            for kind, m in mutations(chain, c16.RULE_VOCAB[1:]):
                if run_layer_seq(m, acc) is not None:
                    acc.evaluated()
                acc.hist("mutation_kind", "layer:" + kind)
                acc.nontrivial({"m": m})
            for sym in c16.RULE_VOCAB[1:]:
                run_layer_seq_applied_in_between(chain, sym, acc)
                acc.hist("mutation_kind", "layer:extended-after-application")
                acc.nontrivial({"m": chain, "x": sym})
        acc.flags["exhaustive_mutations"] = True
    elif k == "diagram":
        diagram_sequences(acc)
        diagram_reconfigured(acc)
        diagram_alias_of_an_earlier_diagram(acc)
    elif k == "entry":
        entry_points(acc)
    else:
        misspelt(spec, acc)


def diagram_sequences(acc):
    from pytestarch import DiagramRule

    d = os.path.join(trees.scratch_dir(), "puml13")
    os.makedirs(d, exist_ok=True)
    good, tagless, noend = os.path.join(d, "good.puml"), os.path.join(d, "tagless.puml"), os.path.join(d, "noend.puml")
    open(good, "w").write("@startuml\n[a] --> [b]\n@enduml\n")
    open(tagless, "w").write("[a] --> [b]\n")
    open(noend, "w").write("@startuml\n[a] --> [b]\n")
    endfirst = os.path.join(d, "endfirst.puml")
    open(endfirst, "w").write("' remember to close the block with @enduml\n@startuml\n[a] --> [b]\n")
    vocab = [("from_file", Path(good)), ("from_file", Path(tagless)), ("from_file", Path(noend)), ("from_file", Path(endfirst)), ("with_base_module", "r"), ("base_module_included_in_module_names", None)]
    for n in range(0, 4):
        for seq in itertools.product(vocab, repeat=n):
            for mode in (True, False):
                r = DiagramRule(should_only_rule=mode)
                HUB.case = {"kind": "diagram_seq", "seq": [[s[0], str(s[1])] for s in seq]}
                try:
                    for name, arg in seq:
                        getattr(r, name)() if arg is None else getattr(r, name)(arg)
                except Exception:  # noqa: BLE001
                    continue
                run(r, ev())
                acc.evaluated()
                acc.count("diagram_histories")
                acc.nontrivial({"d": HUB.case["seq"], "m": mode})


def diagram_reconfigured(acc):
    """A DiagramRule object that was applied once (validly) and is then re-configured: re-based to a package that does
    not exist / lacks the diagram's components, pointed to a tag-less file, or its own file rewritten without tags.
    The judge reads file, base and components at every application, so the later applications must raise too."""
    from pytestarch import DiagramRule

    from ..monitors_more import register_puml

    d = os.path.join(trees.scratch_dir(), "puml13c")
    os.makedirs(d, exist_ok=True)
    tagless = os.path.join(d, "tagless.puml")
    open(tagless, "w").write("[a] --> [b]\n")
    def rewrite(path, text):
        # the diagram is replaced by another one of the SAME size with the SAME modification time (cp -p, rsync -t, a
        # generator with a fixed SOURCE_DATE_EPOCH): what counts is what the file says now
        st = os.stat(path)
        with open(path, "w") as f:
            f.write(text + "\n" * max(0, st.st_size - len(text)))
        os.utime(path, ns=(st.st_atime_ns, st.st_mtime_ns))
        acc.count("diagrams_rewritten_with_equal_size_and_time_stamp")

    steps = {
        "rebase-to-missing-package": lambda r, good: r.with_base_module("nope"),
        "rebase-to-package-without-the-components": lambda r, good: r.with_base_module("r.a"),
        "names-are-fully-qualified-now": lambda r, good: r.base_module_included_in_module_names(),
        "point-to-tagless-file": lambda r, good: r.from_file(Path(tagless)),
        "file-rewritten-without-tags": lambda r, good: (rewrite(good, "[a] --> [b]\n"), register_puml(good, ["a", "b"], [("a", "b")], must_reject=True)),
        "file-rewritten-with-other-components": lambda r, good: (rewrite(good, "@startuml\n[a] --> [zz]\n@enduml\n"), register_puml(good, ["a", "zz"], [("a", "zz")])),
    }
    n = 0
    for mode in (True, False):
        for first in steps:
            for second in [None] + list(steps):
                n += 1
                good = os.path.join(d, f"good{n}.puml")
                open(good, "w").write("@startuml\n[a] --> [b]\n@enduml\n" + "\n" * 8)
                if n % 2:
                    os.utime(good, (1_600_000_000, 1_600_000_000))
                register_puml(good, ["a", "b"], [("a", "b")])
                r = DiagramRule(should_only_rule=mode).from_file(Path(good)).with_base_module("r")
                HUB.case = {"kind": "diagram_reconfigured", "steps": [first, second], "should_only": mode}
                run(r, ev())
                acc.evaluated()
                for st in (first, second):
                    if st is None:
                        continue
                    try:
                        steps[st](r, good)
                    except Exception:  # noqa: BLE001
                        break
                    run(r, ev())
                    acc.evaluated()
                    acc.count("diagram_rules_reconfigured_after_application")
                os.unlink(good)


def diagram_alias_of_an_earlier_diagram(acc):
    """ONE DiagramRule (and one PumlParser) reads a second diagram after a first one; the first declares an alias, the
    second uses the same token as a plain component name - a module the architecture does not have: no verdict."""
    from pytestarch import DiagramRule
    from pytestarch.diagram_extension.diagram_parser import PumlParser

    from ..monitors_more import register_puml

    d = os.path.join(trees.scratch_dir(), "puml13d")
    os.makedirs(d, exist_ok=True)
    first, second = os.path.join(d, "first.puml"), os.path.join(d, "second.puml")
    for alias in ("zz", "ui", "b2"):
        open(first, "w").write(f"@startuml\n[a] as {alias}\n{alias} --> [b]\n@enduml\n")
        open(second, "w").write(f"@startuml\n[{alias}] --> [b]\n@enduml\n")
        register_puml(first, ["a", "b"], [("a", "b")])
        register_puml(second, [alias, "b"], [(alias, "b")])
        for mode in (True, False):
            r = DiagramRule(should_only_rule=mode).from_file(Path(first)).with_base_module("r")
            HUB.case = {"kind": "diagram_alias_leak", "alias": alias, "should_only": mode}
            run(r, ev())
            r.from_file(Path(second))
            run(r, ev())
            acc.evaluated(2)
            acc.count("diagram_rules_pointed_to_a_diagram_that_uses_an_earlier_alias_as_a_name")
        parser = PumlParser()
        for f in (first, second, first):
            try:
                parser.parse(f)  # judged by the parse monitor (C06) - here only driven
            except Exception:  # noqa: BLE001
                pass


def entry_points(acc):
    from pytestarch import get_evaluable_architecture

    spec = {"root": "proj", "dirs": ["sub"], "files": {"__init__.py": "import os\n", "sub/m.py": "import proj\n"}}
    root = trees.write_tree(spec)
    other = trees.write_tree({"root": "elsewhere", "dirs": [], "files": {"x.py": ""}})
    try:
        opts = {
            "exclusions": ("*nothing*",),
            "regex_exclusions": (".*nothing.*",),
            "external_exclusions": ("os",),
            "regex_external_exclusions": ("os$",),
        }
        # the same contradictions spelled with degenerate values: a tuple that only holds the empty pattern (an unset setting
        # split on commas) is a tuple of patterns all the same
        degenerate = [
            {"exclusions": ("",), "regex_exclusions": (".*nothing.*",)},
            {"exclusions": ("", ""), "regex_exclusions": ("",)},
            {"external_exclusions": ("",), "regex_external_exclusions": ("os$",), "exclude_external_libraries": False},
            {"external_exclusions": ("",)},
            {"regex_external_exclusions": ("",)},
            {"external_exclusions": ("",), "exclude_external_libraries": True},
        ]
        for kw in degenerate:
            for mp in (root, os.path.join(root, "sub")):
                _entry(get_evaluable_architecture, root, mp, dict(kw), acc)
                acc.count("entry_point_calls_with_degenerate_option_values")
        for mask in range(16):
            for excl_ext in (True, False):
                # the last two: directories outside root_path whose spelling STARTS with root_path ('..' components)
                dotted_other = os.path.join(root, os.pardir, os.path.relpath(other, os.path.dirname(root)))
                dotted_parent = os.path.join(root, "sub", os.pardir, os.pardir)
                # ... and the everyday typo: a sibling of root_path that does not exist (and something below it)
                typo = os.path.join(os.path.dirname(root), "porj")
                typo_sub = os.path.join(os.path.dirname(root), "proj_v2", "sub")
                # (the '..' spellings also as pathlib.Path objects: Path(root) / ".." / "elsewhere")
                for mp in (root, os.path.join(root, "sub"), other, os.path.dirname(root), dotted_other, dotted_parent, typo, typo_sub, Path(root) / os.pardir / os.path.relpath(other, os.path.dirname(root)), Path(root) / "sub" / os.pardir / os.pardir):
                    kw = {"exclude_external_libraries": excl_ext}
                    for i, (k, v) in enumerate(opts.items()):
                        if mask >> i & 1:
                            kw[k] = v
                    if "regex_exclusions" in kw and "exclusions" not in kw:
                        # the regex form alone needs the glob default switched off
                        for variant in ({}, {"exclusions": ()}):
                            _entry(get_evaluable_architecture, root, mp, dict(kw, **variant), acc)
                    else:
                        _entry(get_evaluable_architecture, root, mp, kw, acc)
        acc.flags["exhaustive_entry_options"] = True
    finally:
        trees.remove_tree(root)
        trees.remove_tree(other)


def _entry(fn, root, mp, kw, acc):
    HUB.case = {"kind": "entry", "mp_rel": os.path.relpath(mp, root), "as_path_object": not isinstance(mp, str), "kw": {k: list(v) if isinstance(v, tuple) else v for k, v in kw.items()}}
    try:
        fn(root, mp, **kw)
    except Exception:  # noqa: BLE001
        pass
    acc.evaluated()
    acc.nontrivial(HUB.case)


def misspelt(spec, acc):
    from pytestarch.eval_structure.evaluable_graph import EvaluableArchitectureGraph  # noqa: F401

    rnd = random.Random(spec["seed"])
    for i in range(spec["n"]):
        if i == 0 or rnd.random() < 0.04:
            big_diagram_with_absent_component(rnd, acc)
        if i % 8 == 0:
            anything_batch_reapplied(rnd, acc)
        if i % 8 == 4:
            anything_batch_over_dying_architectures(rnd, acc)
        mods = random_tree(rnd, 6, 11)
        imps = random_imports(rnd, mods, k_max=8)
        limit = rnd.choice([None, None, 1, 2])
        evl = build(mods, imps, level_limit=limit, check=False)
        present = set(evl.modules)
        real = rnd.choice([m for m in mods if m != "r"])
        kind = rnd.choice(["edit", "too-deep", "below-limit", "unmatched-regex", "prefix-sibling"])
        if kind == "edit":
            bad = real[:-1] + ("q" if real[-1] != "q" else "z")
        elif kind == "too-deep":
            bad = real + ".nope"
        elif kind == "below-limit":
            deep = [m for m in mods if m not in present]
            bad = rnd.choice(deep) if deep else real + ".deeper"
        elif kind == "prefix-sibling":
            bad = real + "b"
        else:
            bad = "^" + real.replace(".", r"\.") + "_zz$"
        if bad in present:
            continue
        good = rnd.choice([m for m in present if m != "r"] or ["r"])
        pos = rnd.choice(["subject", "object", "both"])
        fk = "regex" if kind == "unmatched-regex" else rnd.choice(["named", "named", "sub"])
        verb, d, exc = rnd.choice(["should", "should_only", "should_not"]), rnd.choice(["import", "be"]), rnd.random() < 0.5
        anything = pos == "subject" and rnd.random() < 0.15
        sf = (fk, bad) if pos in ("subject", "both") else ("named", good)
        of = (fk, bad) if pos in ("object", "both") else ("named", good)
        cfg = {"verb": "should_not" if anything else verb, "dir": d, "exc": exc, "subs": [sf], "objs": [] if anything else [of], "anything": anything}
        if anything and fk != "regex" and real in present and rnd.random() < 0.6:
            # 'anything' over a batch in which the absent name merely extends an existing subject's name
            bad2 = bad if kind in ("prefix-sibling", "too-deep") else real + rnd.choice(["_v2", "b", "2"])
            if bad2 not in present:
                members = [(fk, real), (fk, bad2)]
                if rnd.random() < 0.5:
                    members.reverse()
                cfg["subs"] = members
                acc.count("anything_batches_with_one_misspelt_member")
        if rnd.random() < 0.35 and not anything and fk != "regex":
            # a batch in which only one member is misspelt
            # ... often next to the very module it is a misspelling / a too-deep descendant of
            g2 = real if (real in present and rnd.random() < 0.6) else good
            members = [("named" if fk == "regex" else fk, g2), (fk, bad)]
            if rnd.random() < 0.5:
                members.reverse()
            cfg["objs" if pos == "object" else "subs"] = members
            acc.count("batches_with_one_misspelt_member")
        from ..drive import mk_rule

        HUB.case = {"kind": "misspelt", "mods": mods, "imps": imps, "limit": limit, "cfg": cfg}
        run(mk_rule(cfg), evl)
        batch_side = next((sd for sd in ("subs", "objs") if len(cfg[sd]) > 1 and any(n == bad or n not in present for _k, n in cfg[sd])), None)
        if batch_side and fk != "regex":
            # the batch as a one-shot iterable that yields the absent name FIRST: the name must still be looked up
            from ..drive import rule_steps

            c2 = dict(cfg)
            c2[batch_side] = sorted(cfg[batch_side], key=lambda kn: kn[1] in present)
            form = rnd.choice(["generator", "map", "tuple"])
            from pytestarch import Rule

            robj = None
            for name_, args_ in rule_steps(c2, form):
                robj = Rule() if name_ == "Rule" else getattr(robj, name_)(*args_)
            HUB.case = {"kind": "misspelt", "mods": mods, "imps": imps, "limit": limit, "cfg": c2, "container": form}
            o_alt, _m = run(robj, evl)
            acc.evaluated()
            acc.count("batches_with_the_misspelt_member_first_in_another_container")
            if o_alt in ("pass", "fail"):
                HUB.violation("C13", f"unknown-module-verdict:batch-as-{form}", f"a batch given as a {form} whose first member does not exist in the architecture produced the verdict '{o_alt}'", {"cfg": c2, "present": sorted(present)})
        if limit is None and fk != "regex" and rnd.random() < 0.5:
            # the same rule OBJECT is first applied to an architecture in which every name exists (a newer version of the
            # project, say) and then to this one: the absent name must be noticed on every application
            absent = sorted({n for side in ("subs", "objs") for k, n in cfg[side] if k != "regex" and n not in present})
            if absent and all(a.rsplit(".", 1)[0] in present or a.rsplit(".", 1)[0] in absent for a in absent):
                evl_all = build(list(mods) + absent, imps, check=False)
                robj = mk_rule(cfg)
                HUB.case = {"kind": "misspelt", "mods": list(mods) + absent, "imps": imps, "limit": None, "cfg": cfg, "step": "architecture that has every name"}
                run(robj, evl_all)
                HUB.case = {"kind": "misspelt-reapplied", "mods": mods, "imps": imps, "absent": absent, "cfg": cfg}
                run(robj, evl)
                acc.evaluated(2)
                acc.count("rule_objects_with_an_absent_name_first_applied_where_it_exists")
        acc.evaluated()
        acc.hist("misspelt_kind", f"{kind}:{pos}")
        acc.nontrivial({"m": mods, "i": imps, "l": limit, "c": cfg})
        if i % 83 == 0:
            acc.sample({"kind": "misspelt", "modules_present": sorted(present), "rule": cfg, "level_limit": limit})
        # layer rule mentioning a layer that was never defined / whose module does not exist
        if rnd.random() < 0.25:
            layer_misspelt(rnd, evl, good, bad if fk != "regex" else real + "_q", acc)
        if rnd.random() < 0.3:
            several_patterns_one_unmatched(rnd, evl, present, good, acc)
        if rnd.random() < 0.3:
            diagram_with_absent_component(rnd, evl, present, acc)


def several_patterns_one_unmatched(rnd, evl, present, good, acc):
    """Two patterns on ONE side of a rule, one matching something and one matching nothing:
    have_name_containing([..]) and layer rules over two regex-defined layers."""
    from pytestarch import LayeredArchitecture, LayerRule, Rule

    other = rnd.choice(sorted(m for m in present if m != good) or [good])
    verb = rnd.choice(["should", "should_only", "should_not"])
    HUB.case = {"kind": "several_patterns", "good": good, "other": other}
    r = Rule().modules_that()
    pats = [good, "*no_such_module_qq"]
    rnd.shuffle(pats)
    if rnd.random() < 0.5:
        r = getattr(r.have_name_containing(pats), verb)().import_modules_that().are_named(other)
    else:
        r = getattr(r.are_named(other), verb)().be_imported_by_modules_that().have_name_containing(pats)
    run(r, evl)
    acc.evaluated()
    acc.count("several_patterns_one_unmatched")
    rx_good, rx_bad = "^" + good.replace(".", r"\.") + "$", "^no_such_layer_module_qq$"
    arch = LayeredArchitecture().layer("S").containing_modules([other]).layer("G").have_modules_with_names_matching(rx_good).layer("B").have_modules_with_names_matching(rx_bad)
    objs = ["G", "B"]
    rnd.shuffle(objs)
    lr = getattr(LayerRule().based_on(arch).layers_that().are_named("S"), verb)()
    lr = getattr(lr, rnd.choice(["access_layers_that", "be_accessed_by_layers_that", "access_layers_except_layers_that"]))().are_named(objs)
    o, _ = run(lr, evl)
    acc.evaluated()
    if o in ("pass", "fail"):
        HUB.violation("C13", "layer-rule-unmatched-regex-layer-verdict", f"layer rule over a regex layer that matches no module produced the verdict '{o}'", {"good": good, "other": other, "objects": objs, "verb": verb})


def diagram_with_absent_component(rnd, evl, present, acc):
    """A DiagramRule whose diagram names a module that is absent from the architecture."""
    from pytestarch import DiagramRule

    from ..monitors_more import register_puml

    import re as _re

    # names the diagram parser's name class can spell (see the known finding of C06) and no '__init__' pseudo module
    tops = sorted(m for m in present if m.count(".") == 1 and _re.fullmatch(r"[\w.]+", m) and not m.endswith("__init__"))
    if len(tops) < 2:
        return
    a, b = rnd.sample(tops, 2)
    how = rnd.choice(["misspelt-component", "misspelt-base", "relative-names-without-base"])
    d = os.path.join(trees.scratch_dir(), "puml13b")
    os.makedirs(d, exist_ok=True)
    path = os.path.join(d, f"x{acc.evaluations}.puml")
    sa, sb = a.split(".", 1)[1], b.split(".", 1)[1]
    if how == "misspelt-component":
        comps, rel = [sa, sb + "_zz"], [(sa, sb + "_zz")]
    else:
        comps, rel = [sa, sb], [(sa, sb)]
    open(path, "w").write("@startuml\n" + "\n".join(f"[{x}] --> [{y}]" for x, y in rel) + "\n@enduml\n")
    register_puml(path, comps, rel)
    r = DiagramRule(should_only_rule=rnd.random() < 0.5).from_file(Path(path))
    r = r.with_base_module("r") if how == "misspelt-component" else r.with_base_module("rr") if how == "misspelt-base" else r.base_module_included_in_module_names()
    HUB.case = {"kind": "diagram_absent", "how": how, "a": a, "b": b}
    run(r, evl)
    acc.evaluated()
    acc.hist("diagram_absent_component", how)
    os.unlink(path)


def anything_batch_reapplied(rnd, acc):
    """ONE 'anything' rule object over [P, P.child]: first applied to an architecture that has P.child, then to one that
    lacks it (and the other way round).  The absent name must be noticed on every application."""
    from ..drive import mk_rule

    mods = random_tree(rnd, 6, 11)
    imps = random_imports(rnd, mods, k_max=8)
    parents = [m for m in mods if m != "r"]
    p = rnd.choice(parents)
    child = p + "." + rnd.choice(["nope", "zz_new", "v2"])
    if child in mods:
        return
    fk = rnd.choice(["named", "named", "sub"])
    members = [(fk, p), (fk, child)]
    if rnd.random() < 0.5:
        members.reverse()
    cfg = {"verb": "should_not", "dir": rnd.choice(["import", "be"]), "exc": False, "subs": members, "objs": [], "anything": True}
    with_child = build(list(mods) + [child], imps, check=False)
    without = build(mods, imps, check=False)
    robj = mk_rule(cfg, list_form=True)
    order = [("architecture that has every name", with_child, list(mods) + [child]), ("name absent", without, mods)]
    if rnd.random() < 0.3:
        order.reverse()
    for step, evl, ms in order + order[:1]:
        HUB.case = {"kind": "anything-batch-reapplied", "mods": mods, "imps": imps, "cfg": cfg, "child": child, "order": [o[0] for o in order], "step": step}
        run(robj, evl)
        acc.evaluated()
    acc.count("rule_objects_with_an_absent_name_first_applied_where_it_exists")


def anything_batch_over_dying_architectures(rnd, acc, forced=None, rounds=10):
    """The same 'anything' rule over [P, P.child] in a build / evaluate / drop loop in which P.child comes and goes (a
    module that is deleted and restored between two runs of a watch mode) and every architecture most likely lives where its
    dead predecessor did: wherever P.child is absent, the rule names an unknown module and must not give a verdict."""
    from ..drive import Recycler, mk_rule

    if forced:
        mods, imps, cfg, child, has = forced["mods"], [tuple(i) for i in forced["imps"]], forced["cfg"], forced["child"], forced["has"]
        cfg = dict(cfg, subs=[tuple(x) for x in cfg["subs"]])
    else:
        mods = random_tree(rnd, 6, 11)
        imps = random_imports(rnd, mods, k_max=8)
        p = rnd.choice([m for m in mods if m != "r"])
        child = p + "." + rnd.choice(["legacy", "zz_new", "v2"])
        if child in mods:
            return
        fk = rnd.choice(["named", "named", "sub"])
        members = [(fk, p), (fk, child)]
        if rnd.random() < 0.5:
            members.reverse()
        cfg = {"verb": "should_not", "dir": rnd.choice(["import", "be"]), "exc": False, "subs": members, "objs": [], "anything": True}
        has = [rnd.random() < 0.5 for _ in range(rounds)]
    rc = Recycler()
    kept = mk_rule(cfg, list_form=True)
    for i, h in enumerate(has):
        ms = list(mods) + [child] if h else list(mods)
        evl = rc.next(ms, imps)
        HUB.case = {"kind": "anything-batch-dying-architectures", "mods": mods, "imps": imps, "cfg": cfg, "child": child, "has": has, "round": i}
        run(kept if i % 2 else mk_rule(cfg, list_form=True), evl)
        acc.evaluated()
        if not h:
            acc.count("anything_rules_with_an_absent_name_on_recycled_architectures")
        del evl
    rc.drop()


def big_diagram_with_absent_component(rnd, acc):
    """20-45 components whose drawn arrows are (mostly) not realised - so dozens of generated rules are violated - and
    one component that does not exist, declared first / last / isolated / as the target or source of one arrow."""
    from pytestarch import DiagramRule

    from ..monitors_more import register_puml

    n = rnd.randint(21, 45)
    comps = [f"c{i:02d}" for i in range(n)]
    mods = ["r"] + [f"r.{c}" for c in comps]
    realised = rnd.choice([0.0, 0.0, 0.1, 0.5])
    rel = [(comps[i], comps[(i + 1) % n]) for i in range(n)]
    imps = [(f"r.{a}", f"r.{b}") for a, b in rel if rnd.random() < realised]
    imps += [(f"r.{rnd.choice(comps)}", f"r.{rnd.choice(comps)}") for _ in range(rnd.randint(0, 6))]
    imps = sorted({(a, b) for a, b in imps if a != b})
    evl = build(mods, imps, check=False)
    how = rnd.choice(["isolated-last", "isolated-first", "target-of-last", "source-last", "source-first", "target-of-first"])
    bad = rnd.choice(["zz_missing", "c00x", "c" + str(n + 5)])
    lines = [f"[{a}] --> [{b}]" for a, b in rel]
    drawn = list(rel)
    if how == "isolated-last":
        lines.append(f"[{bad}]")
    elif how == "isolated-first":
        lines.insert(0, f"[{bad}]")
    elif how == "target-of-last":
        lines.append(f"[{comps[-1]}] --> [{bad}]")
        drawn.append((comps[-1], bad))
    elif how == "target-of-first":
        lines.insert(0, f"[{comps[0]}] --> [{bad}]")
        drawn.insert(0, (comps[0], bad))
    elif how == "source-last":
        lines.append(f"[{bad}] --> [{comps[0]}]")
        drawn.append((bad, comps[0]))
    else:
        lines.insert(0, f"[{bad}] --> [{comps[0]}]")
        drawn.insert(0, (bad, comps[0]))
    d = os.path.join(trees.scratch_dir(), "puml13c")
    os.makedirs(d, exist_ok=True)
    path = os.path.join(d, f"big{acc.evaluations}.puml")
    open(path, "w").write("@startuml\n" + "\n".join(lines) + "\n@enduml\n")
    register_puml(path, comps + [bad], drawn)
    mode = rnd.random() < 0.5
    r = DiagramRule(should_only_rule=mode).from_file(Path(path)).with_base_module("r")
    HUB.case = {"kind": "big_diagram_absent", "how": how, "n": n, "imports_realised": len(imps), "bad": bad, "should_only": mode}
    run(r, evl)
    acc.evaluated()
    acc.count("big_diagrams_with_an_absent_component")
    acc.hist("big_diagram_absent_component", how)
    os.unlink(path)


def layer_misspelt(rnd, evl, good, bad, acc):
    from pytestarch import LayeredArchitecture, LayerRule

    HUB.case = {"kind": "layer_misspelt", "good": good, "bad": bad}
    arch = LayeredArchitecture().layer("A").containing_modules([good]).layer("B").containing_modules([bad])
    which = rnd.choice(["undefined-layer-object", "undefined-layer-subject", "layer-with-unknown-module"])
    # an undefined layer name may look like a defined one: other case, surrounding blanks, a prefix, an extension
    Nope = rnd.choice(["Nope", "a", "b", " A", "B ", "A1", "AB", ""])
    try:
        r = LayerRule().based_on(arch).layers_that()
        r = r.are_named(Nope if which == "undefined-layer-subject" else "A")
        r = getattr(r, rnd.choice(["should", "should_only", "should_not"]))()
        r = getattr(r, rnd.choice(["access_layers_that", "be_accessed_by_layers_that", "access_layers_except_layers_that"]))()
        r = r.are_named(Nope if which == "undefined-layer-object" else "B")
    except Exception:  # noqa: BLE001  a lookup error at the call is fine
        acc.count("layer_misspelt_rejected_at_call")
        return
    o, _ = run(r, evl)
    acc.evaluated()
    acc.count("layer_misspelt_evaluated")
    if o in ("pass", "fail"):
        HUB.violation("C13", f"layer-rule-{which}-verdict", f"layer rule with {which} produced the verdict '{o}'", {"good": good, "bad": bad})


def replay(case, acc):
    (None if os.environ.get("PTA_WARNINGS_ARE_ERRORS") else warnings.simplefilter("ignore"))
    k = case["kind"]
    seq = [tuple(s) for s in case.get("seq", [])]
    if k == "rule_seq":
        run_rule_seq(seq, acc)
    elif k == "layer_seq":
        run_layer_seq(seq, acc)
    elif k == "rule_seq_reapplied":
        run_rule_seq_applied_in_between(seq, tuple(case["extra"]), acc)
    elif k == "layer_seq_reapplied":
        run_layer_seq_applied_in_between(seq, tuple(case["extra"]), acc)
    elif k == "misspelt":
        from ..drive import mk_rule

        cfg = case["cfg"]
        cfg["subs"] = [tuple(s) for s in cfg["subs"]]
        cfg["objs"] = [tuple(o) for o in cfg["objs"]]
        evl = build(case["mods"], [tuple(i) for i in case["imps"]], level_limit=case["limit"], check=False)
        HUB.case = case
        run(mk_rule(cfg), evl)
    elif k == "anything-batch-reapplied":
        from ..drive import mk_rule

        cfg = case["cfg"]
        cfg["subs"] = [tuple(s) for s in cfg["subs"]]
        imps = [tuple(i) for i in case["imps"]]
        robj = mk_rule(cfg, list_form=True)
        evs = {"architecture that has every name": build(list(case["mods"]) + [case["child"]], imps, check=False), "name absent": build(case["mods"], imps, check=False)}
        for step in case["order"] + case["order"][:1]:
            HUB.case = dict(case, step=step)
            run(robj, evs[step])
    elif k == "anything-batch-dying-architectures":
        anything_batch_over_dying_architectures(random.Random(0), acc, forced=case)
    elif k == "misspelt-reapplied":
        from ..drive import mk_rule

        cfg = case["cfg"]
        cfg["subs"] = [tuple(s) for s in cfg["subs"]]
        cfg["objs"] = [tuple(o) for o in cfg["objs"]]
        imps = [tuple(i) for i in case["imps"]]
        robj = mk_rule(cfg)
        HUB.case = dict(case, step="architecture that has every name")
        run(robj, build(list(case["mods"]) + list(case["absent"]), imps, check=False))
        HUB.case = case
        run(robj, build(case["mods"], imps, check=False))
    elif k == "diagram_seq":
        diagram_sequences(acc)
    elif k == "diagram_reconfigured":
        diagram_reconfigured(acc)
    elif k == "diagram_alias_leak":
        diagram_alias_of_an_earlier_diagram(acc)
    elif k == "entry":
        entry_points(acc)
    else:
        acc.mark_inconclusive(f"no replay for case kind {k}")


def floors(acc, tier):
    why = []
    for hist, need in (("c13_rule_class", [A.MUST_RAISE, A.COMPLETE, A.UNSPECIFIED]), ("c13_layer_class", [A.MUST_RAISE, A.COMPLETE])):
        for c in need:
            if acc.hists.get(hist, {}).get(c, 0) == 0:
                why.append(f"{hist}: class {c} never observed")
    for c, n in (("c13_rule_evaluations", 5000), ("c13_layer_evaluations", 500), ("c13_diagram_evaluations", 50), ("c13_entry_point_invalid_calls", 50), ("c13_unknown_module_evaluations", 300), ("c13_unmatched_regex_evaluations", 50), ("c13_calls_that_must_raise", 100), ("several_patterns_one_unmatched", 50), ("c13_diagram_unknown_component_evaluations", 50), ("diagram_rules_reconfigured_after_application", 50), ("batches_with_one_misspelt_member", 50), ("anything_batches_with_one_misspelt_member", 10), ("rule_histories_with_an_empty_batch", 50), ("big_diagrams_with_an_absent_component", 5), ("rule_objects_with_an_absent_name_first_applied_where_it_exists", 50), ("batches_with_the_misspelt_member_first_in_another_container", 30), ("anything_rules_with_an_absent_name_on_recycled_architectures", 100), ("architectures_built_at_the_address_of_a_dead_predecessor", 100)):
        if acc.counters[c] < n:
            why.append(f"{c}: only {acc.counters[c]}")
    acc.flags["exhaustive"] = all(acc.flags.get(f) for f in ("exhaustive_rule_sequences", "exhaustive_layer_sequences", "exhaustive_mutations", "exhaustive_entry_options"))
    acc.flags["exhaustive_subspaces"] = "Rule call sequences up to the tier's length over 17 symbols; LayerRule chains; DiagramRule sequences <= 3; all single deletions/duplications/transpositions of all canonical chains; all entry-point option presence combinations"
    return why
