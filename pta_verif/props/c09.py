"""C09 - level_limit yields the quotient graph and preserves verdicts above the limit.

Deciding steps: offline checker pairing the two scan events of one tree (level_limit=k vs None):
nodes / imports of the flattened scan must equal the truncation (done by refmodel/names.py) of the
full scan; online R-SCAN post-condition with the limit; then ~20 rules whose names lie above the
limit are evaluated on both evaluables through the monitored boundary and must agree.
"""
from __future__ import annotations

import os
import random

from .. import trees
from ..drive import mk_rule, run
from ..monitors import HUB
from ..monitors_more import attribute_scan_findings
from ..refmodel import rules as rrule
from ..refmodel.names import is_ancestor, related, truncate

ID = "C09"
LEVEL = "exploration"
TECHNIQUE = "offline pair checker over scan events (flattened scan = truncation of full scan) + verdict-pair comparison through the monitored Rule.assert_applies"
LEVEL_TEXT = (
    "Held on every observed (tree, module_path, k): the level-limited architecture equals the name-truncated full architecture (modules and "
    "imports, self-edges dropped), with the limit counted from module_path, and every sampled rule over names above the limit had the same "
    "verdict on both. Seeded random trees of depth <= 5, k in 1..depth, module_path at and below the root."
)
LEVEL_NOTE = "Truncation is computed by refmodel/names.py on the raw graph of the unlimited scan; rules are restricted to pairwise-unrelated names (related names legitimately differ because self-edges vanish)."
LEVEL_TEXT += ' Extra shards scan random projects (a quarter of them wide and deep) under independently drawn options - file exclusions, level limit, kept externals with external exclusions, module_path below the root, module-object entry point - judged by the same deciding steps. Name pools include unusual legal identifiers (non-ASCII, combining marks, U+00B7, case / zero-padding twins, py*/init* names).'
RULE = (
    "an evaluation = one (full scan, limited scan) pair or one rule evaluated on both; non-trivial pair = truncation merged at least one module "
    "(some module lies below the limit); distinct = distinct (tree digest, module_path, k)"
)
ASSUMPTIONS = ["external libraries excluded (C10 covers them)", "imports of own ancestor packages ignored"]
SHARD_TIMEOUT = {"quick": 900, "thorough": 3000}


def plan(tier, seed):
    return [{"kind": "pairs", "n": 22 if tier == "quick" else 400} for _ in range(10 if tier == "quick" else 16)]


def run_shard(spec, acc):
    rnd = random.Random(spec["seed"])
    for i in range(spec["n"]):
        tspec = trees.random_project(rnd, depth=rnd.choice([3, 4, 5]), imports_per_file=(1, 4), name_imports=0.2, externals=rnd.choice([0.0, 0.25]))
        if rnd.random() < 0.4:
            # src-layout style: names written relative to a directory between root_path and module_path
            tops = [d for d in trees.all_dirs(tspec) if d and "/" not in d]
            if tops:
                acc.count("relativised_statements", trees.relativise_all(tspec, rnd.choice(tops + [""]), rnd, prob=0.8))
        one_tree(tspec, acc, rnd, sample=(i % 9 == 0))
        if i % 3 == 0:
            # a project scanned in full, edited in place (same sizes, same time stamps), then scanned with a limit: the
            # limited architecture is the quotient of the files as they are now
            from .. import lazyscan

            lazyscan.rescan_after_edit(rnd, acc, "C09", {"nodes": "C09", "edge-missing": "C09", "edge-extra": "C09"}, option_sets=({"level_limit": 1}, {"level_limit": 2}, {}), judged=lambda kw: "level_limit" in kw)
            acc.count("limited_rescans_after_in_place_edit")


def rules_above_limit(rnd, nodes, mpname, k, n=20):
    base = len(mpname.split("."))
    lvl = lambda m: len(m.split(".")) - base  # noqa: E731
    named_ok = [m for m in nodes if (m == mpname or is_ancestor(mpname, m)) and 1 <= lvl(m) <= k]
    sub_ok = [m for m in nodes if (m == mpname or is_ancestor(mpname, m)) and 1 <= lvl(m) < k]
    out = []
    tries = 0
    while len(out) < n and tries < 200:
        tries += 1
        skind = rnd.choice(["named", "named", "sub"])
        okind = rnd.choice(["named", "named", "sub"])
        sp = sub_ok if skind == "sub" else named_ok
        op = sub_ok if okind == "sub" else named_ok
        if not sp or not op:
            continue
        subs = rnd.sample(sp, min(len(sp), rnd.randint(1, 2)))
        objs = rnd.sample(op, min(len(op), rnd.randint(1, 2)))
        names = subs + objs
        if any(related(a, b) for i, a in enumerate(names) for b in names[i + 1 :]):
            continue
        if rnd.random() < 0.1:
            out.append({"verb": "should_not", "dir": rnd.choice(rrule.DIRS), "exc": False, "subs": [(skind, subs[0])], "objs": [], "anything": True})
        else:
            out.append({"verb": rnd.choice(rrule.VERBS), "dir": rnd.choice(rrule.DIRS), "exc": rnd.random() < 0.5, "subs": [(skind, s) for s in subs], "objs": [(okind, o) for o in objs], "anything": False})
    return out


def one_tree(tspec, acc, rnd, sample=False, forced=None):
    from pytestarch import get_evaluable_architecture

    root = trees.write_tree(tspec)
    try:
        dirs = trees.all_dirs(tspec)
        maxdepth = max(d.count("/") + 1 if d else 0 for d in dirs)
        mp_choices = [forced["mp"]] if forced else [""] + rnd.sample([d for d in dirs if d], min(2, len(dirs) - 1))
        for mp_rel in mp_choices:
            mp_abs = os.path.join(root, mp_rel) if mp_rel else root
            mpname = trees.mod_of("proj", mp_rel)
            HUB.case = {"kind": "full", "spec": tspec, "mp": mp_rel}
            get_evaluable_architecture(root, mp_abs)
            full = HUB.scan_events[-1]
            ev_full = full.evaluable
            depth_below = max([len(n.split(".")) - len(mpname.split(".")) for n in full.nodes if is_ancestor(mpname, n)] + [0])
            # k = 0 (everything collapses into module_path) is below the property's 1..depth range but costs nothing
            ks = [forced["k"]] if forced else list(range(0, max(1, depth_below) + 1))
            for k in ks:
                case = {"kind": "pair", "spec": tspec, "mp": mp_rel, "k": k}
                HUB.case = case
                get_evaluable_architecture(root, mp_abs, level_limit=k)
                lim = HUB.scan_events[-1]
                acc.evaluated()
                attribute_scan_findings(lim, {"nodes": "C09", "edge-missing": "C09", "edge-extra": "C09"}, case, baseline=full)
                total = len(mpname.split(".")) + k
                t = lambda n: truncate(n, total)  # noqa: E731
                exp_nodes = {t(n) for n in full.nodes}
                exp_imps = {(t(a), t(b)) for a, b in full.imps if t(a) != t(b)}
                merged = len(full.nodes) - len(exp_nodes)
                selfdropped = sum(1 for a, b in full.imps if t(a) == t(b))
                acc.count("edges_merged_or_kept", len(exp_imps))
                acc.count("self_edges_dropped", selfdropped)
                acc.hist("depth_k_mpdepth", f"{depth_below}:{k}:{mp_rel.count('/') + 1 if mp_rel else 0}")
                if merged:
                    acc.nontrivial({"t": tspec, "mp": mp_rel, "k": k})
                if lim.nodes != exp_nodes:
                    HUB.violation("C09", "nodes-differ-from-truncation", f"level_limit={k}: modules are not the truncated names of the full architecture", {"k": k, "mp": mp_rel, "extra": sorted(lim.nodes - exp_nodes), "missing": sorted(exp_nodes - lim.nodes)})
                gi = {e for e in lim.imps if not is_ancestor(e[1], e[0])}
                ei = {e for e in exp_imps if not is_ancestor(e[1], e[0]) and not is_ancestor(e[0], e[1])}
                gi2 = {e for e in gi if not is_ancestor(e[0], e[1])}
                if gi2 != ei:
                    HUB.violation("C09", "imports-differ-from-quotient", f"level_limit={k}: imports are not the quotient of the full import relation", {"k": k, "mp": mp_rel, "extra": sorted(gi2 - ei), "missing": sorted(ei - gi2)})
                if lim.hierarchy:
                    HUB.violation("C09", "hierarchy-invariant", lim.hierarchy[0], {"k": k, "mp": mp_rel})
                if rnd.random() < 0.35 or (forced and forced.get("variant")):
                    limit_variants(root, mp_abs, mp_rel, mpname, k, total, lim, tspec, rnd, acc, forced)
                # verdict preservation
                cfgs = forced.get("cfgs") if forced and forced.get("cfgs") else rules_above_limit(rnd, lim.nodes, mpname, k)
                lim_ev = lim.evaluable
                if (forced and forced.get("copied")) or (not forced and rnd.random() < 0.3):
                    # the flattened architecture went through copy.deepcopy / pickle before it is asked for verdicts
                    from ..drive import copy_of

                    how = forced["copied"] if forced else rnd.choice(["deepcopy", "pickle"])
                    case = dict(case, copied=how)
                    HUB.case = case
                    lim_ev = copy_of(lim_ev, how)
                    acc.count("limited_architectures_used_through_a_copy")
                for cfg in cfgs:
                    cfg = dict(cfg, subs=[tuple(x) for x in cfg["subs"]], objs=[tuple(x) for x in cfg["objs"]])
                    HUB.case = dict(case, cfgs=[cfg])
                    o1, m1 = run(mk_rule(cfg), ev_full)
                    o2, m2 = run(mk_rule(cfg), lim_ev)
                    acc.evaluated()
                    acc.count("verdict_pairs")
                    acc.hist("verdict_pair_outcome", f"{o1}/{o2}")
                    if o1 != o2:
                        HUB.violation("C09", f"verdict-changed:{rrule.shape(cfg)}", f"rule over names above the limit gave {o1} on the full and {o2} on the level_limit={k} architecture", {"cfg": cfg, "k": k, "mp": mp_rel, "msg_full": m1, "msg_limited": m2})
                if sample:
                    acc.sample({"files": sorted(tspec["files"])[:10], "module_path": mp_rel or ".", "k": k, "modules_full": len(full.nodes), "modules_limited": len(lim.nodes), "rules": len(cfgs)})
                    sample = False
    finally:
        trees.remove_tree(root)


def limit_variants(root, mp_abs, mp_rel, mpname, k, total, lim, tspec, rnd, acc, forced=None):
    """(a) the same limited scan with root_path / module_path spelled with a trailing separator or as pathlib.Path;
    (b) external libraries kept (with or without external exclusion patterns): the limited architecture is the
    truncation of the unlimited one there too - externals are truncated like every other module name."""
    from pathlib import Path

    from pytestarch import get_evaluable_architecture

    for label, (r_arg, m_arg) in {"root-trailing-slash": (root + "/", mp_abs), "module-trailing-slash": (root, mp_abs + "/"), "both-trailing-slash": (root + "/", mp_abs + "/"), "pathlib": (Path(root), Path(mp_abs))}.items():
        case = {"kind": "pair", "spec": tspec, "mp": mp_rel, "k": k, "variant": "spelling:" + label}
        HUB.case = case
        get_evaluable_architecture(r_arg, m_arg, level_limit=k)
        sv = HUB.scan_events[-1]
        acc.evaluated()
        acc.count("limited_scans_with_another_path_spelling")
        if sv.state != lim.state:
            HUB.violation("C09", f"limited-scan-depends-on-path-spelling:{label}", f"level_limit={k}: the same directories spelled as {label} build another architecture", {"k": k, "mp": mp_rel, "nodes_diff": sorted(sv.nodes ^ lim.nodes)[:12], "imports_diff": sorted(sv.imps ^ lim.imps)[:12]})
    t = lambda n: truncate(n, total)  # noqa: E731
    get_evaluable_architecture(root, mp_abs, exclude_external_libraries=False)
    inc = HUB.scan_events[-1]
    internal = lambda n: n == mpname or is_ancestor(mpname, n) or is_ancestor(n, mpname)  # noqa: E731
    ext = sorted(n for n in inc.nodes if not internal(n))
    deep = [n for n in ext if len(n.split(".")) > total]
    options = [None]
    if ext:
        e = rnd.choice(deep or ext)
        options += [(e,), (e.split(".")[0] + "*",), ("*" + e.split(".")[-1],)]
    pats = forced["ext"] if forced and "ext" in forced else rnd.choice(options)
    kw = {"exclude_external_libraries": False}
    if pats:
        kw["external_exclusions"] = tuple(pats)
    case = {"kind": "pair", "spec": tspec, "mp": mp_rel, "k": k, "variant": "include", "ext": list(pats) if pats else None}
    HUB.case = case
    get_evaluable_architecture(root, mp_abs, **kw)
    full = HUB.scan_events[-1]
    get_evaluable_architecture(root, mp_abs, level_limit=k, **kw)
    lim2 = HUB.scan_events[-1]
    acc.evaluated(2)
    acc.count("limited_scans_with_externals_kept")
    if deep and pats:
        acc.count("limited_scans_with_an_external_pattern_and_externals_below_the_limit")
    exp_nodes = {t(n) for n in full.nodes}
    exp_imps = {(t(a), t(b)) for a, b in full.imps if t(a) != t(b)}
    if lim2.nodes != exp_nodes:
        HUB.violation("C09", "nodes-differ-from-truncation:externals-kept", f"level_limit={k}, external libraries kept: modules are not the truncated names of the unlimited architecture", {"k": k, "mp": mp_rel, "external_exclusions": pats, "extra": sorted(lim2.nodes - exp_nodes), "missing": sorted(exp_nodes - lim2.nodes)})
    related_ = lambda e: is_ancestor(e[0], e[1]) or is_ancestor(e[1], e[0])  # noqa: E731
    gi = {e for e in lim2.imps if not related_(e)}
    ei = {e for e in exp_imps if not related_(e)}
    if gi != ei:
        HUB.violation("C09", "imports-differ-from-quotient:externals-kept", f"level_limit={k}, external libraries kept: imports are not the quotient of the unlimited import relation", {"k": k, "mp": mp_rel, "external_exclusions": pats, "extra": sorted(gi - ei), "missing": sorted(ei - gi)})


def replay(case, acc):
    if case.get("kind") == "rescan-after-edit":
        from .. import lazyscan

        return lazyscan.rescan_after_edit(random.Random(0), acc, "C09", {"nodes": "C09", "edge-missing": "C09", "edge-extra": "C09"}, forced=case, option_sets=({"level_limit": 1}, {"level_limit": 2}, {}), judged=lambda kw: "level_limit" in kw)
    forced = {"mp": case["mp"], "k": case.get("k", 1), "cfgs": case.get("cfgs"), "copied": case.get("copied")}
    if case.get("variant"):
        forced["variant"] = case["variant"]
        if "ext" in case:
            forced["ext"] = case["ext"]
    one_tree(case["spec"], acc, random.Random(0), forced=forced)


def floors(acc, tier):
    why = []
    if acc.counters["verdict_pairs"] < 1000:
        why.append(f"verdict pairs: {acc.counters['verdict_pairs']}")
    if acc.counters["limited_architectures_used_through_a_copy"] < 20:
        why.append(f"only {acc.counters['limited_architectures_used_through_a_copy']} flattened architectures used through a deepcopy / pickle copy")
    if acc.counters["limited_rescans_after_in_place_edit"] < 10:
        why.append("too few limited re-scans after an in-place edit")
    if acc.counters["self_edges_dropped"] < 10:
        why.append("too few self-edges dropped by truncation")
    h = acc.hists.get("verdict_pair_outcome", {})
    if h.get("pass/pass", 0) == 0 or h.get("fail/fail", 0) == 0:
        why.append("verdict pairs never showed both outcomes")
    if not any(k.split(":")[2] != "0" for k in acc.hists.get("depth_k_mpdepth", {})):
        why.append("module_path below root never combined with a limit")
    for c, n in (("limited_scans_with_another_path_spelling", 100), ("limited_scans_with_externals_kept", 50), ("limited_scans_with_an_external_pattern_and_externals_below_the_limit", 5)):
        if acc.counters[c] < n:
            why.append(f"{c}: only {acc.counters[c]}")
    if acc.counters["scan_model_errors"]:
        why.append("reference scanner crashed")
    return why
