"""C07 - DiagramRule passes exactly when the imports conform to the diagram.

Deciding step: online post-condition on DiagramRule.assert_applies (monitors_more._judge_diagram_rule):
verdict vs the pairwise conformance predicate of the property statement computed from the GENERATED
relation (not from the parser's output) and the evaluable's import relation; failing message vs the
union of R-RULE's expected reports of all violated generated rules; plus an offline twin check
(with_base_module on short names == fully qualified names) over the event log.
"""
from __future__ import annotations

import os
import random
from pathlib import Path

from .. import trees
from ..drive import build, run
from ..monitors import HUB
from ..monitors_more import register_puml
from ..refmodel import puml as rpuml
from ..refmodel import rules as rrule
from . import c06

ID = "C07"
LEVEL = "exploration"
TECHNIQUE = "online post-condition on DiagramRule.assert_applies (conformance predicate + union-of-reports from R-RULE) and offline twin-file checker (base-module prefixing)"
LEVEL_TEXT = (
    "Held on every observed DiagramRule evaluation: pass <=> pairwise conformance predicate (plus the should-only clause), failing message = union of "
    "the reports of all violated generated rules (0, 1 and >= 2 simultaneously failing rules observed), with_base_module(p) on short names == fully "
    "qualified names. Random relations over 2-6 components, conforming graphs with 0-3 perturbations, bystander modules and sub-modules, both modes."
)
LEVEL_NOTE = "Conformance is computed from the relation the diagram was generated from, so a parser defect shows up here as well; components are pairwise unrelated modules (parent-child diagrams are documented as unsupported)."
LEVEL_TEXT += ' One DiagramRule object is also re-applied to conforming and violating architectures in turn. Additionally an end-to-end soak: random projects on disk are scanned with the real scanner (externals kept or dropped, external exclusions, level limits, module_path below the root) and module rules, layer rules, diagram rules and plots are interleaved on those architectures with every monitor armed.'
LEVEL_TEXT += " Dotted components that start with the base module's own name are included."
RULE = "an evaluation = one DiagramRule.assert_applies judged by the monitor; non-trivial = diagram with >= 1 arrow on a non-empty import relation; distinct = distinct (diagram, graph, mode, naming) tuples"
ASSUMPTIONS = ["R-RULE gives the report of each generated rule (single named subject, named objects: no ambiguity)"]
SHARD_TIMEOUT = {"quick": 900, "thorough": 3000}

COMPS = ["a", "ab", "b", "core", "util", "x1", "a_b"]
BASE = "r.app"


def plan(tier, seed):
    return [{"kind": "random", "n": 260 if tier == "quick" else 9000} for _ in range(10 if tier == "quick" else 16)]


def gen_case(rnd):
    base = BASE
    n = rnd.randint(2, 6)
    comps = rnd.sample(COMPS, n)
    if rnd.random() < 0.2:
        # layouts like shop/shop/...: a component named like the base module (or starting with "<base>_")
        base = rnd.choice(["app", "a"])
        comps = [base] + rnd.sample([c for c in COMPS if c != base], n - 1)
        if rnd.random() < 0.5:
            comps.append(base + "_x")
    elif rnd.random() < 0.04:
        # many components (12-25): wide rules, many violated rules in one aggregate
        comps = [f"c{i}" for i in rnd.sample(range(1, 40), rnd.randint(12, 25))]
        return _gen_case(rnd, base, comps, many=True)
    elif rnd.random() < 0.12:
        # layouts like mysite/mysite/urls.py: dotted component names that start with the base module's own name
        base = rnd.choice(["app", "a"])
        inner = rnd.sample([c for c in COMPS if c != base], 2)
        comps = [f"{base}.{inner[0]}"] + ([f"{base}.{inner[1]}"] if rnd.random() < 0.5 else []) + rnd.sample([c for c in COMPS if c not in inner and c != base], max(1, n - 2))
    return _gen_case(rnd, base, comps)


def _gen_case(rnd, BASE, comps, many=False):
    n = len(comps)
    pairs = [(a, b) for a in comps for b in comps if a != b]
    rel = rnd.sample(pairs, rnd.randint(0, min(len(pairs), 6)) if not many else rnd.randint(15, 60))
    top = BASE.split(".")[0]
    mods = sorted({top, BASE, f"{top}.other", f"{BASE}.by1", f"{BASE}.by2"}) + [f"{BASE}.{c}" for c in comps]
    subs = {}
    for c in comps:
        if rnd.random() < 0.5:
            subs[c] = [f"{BASE}.{c}.s{i}" for i in range(rnd.randint(1, 2))]
            mods += subs[c]
    def member(c):
        return rnd.choice([f"{BASE}.{c}"] + subs.get(c, []))
    imps = set()
    for a, b in rel:
        imps.add((member(a), member(b)))
    pert = []
    for _ in range(rnd.choice([0, 0, 1, 1, 2, 3]) if not many else rnd.randint(0, 45)):
        k = rnd.choice(["drop", "add-undrawn", "bystander", "from-sub", "into-bystander-sub", "other"])
        if k == "drop" and imps:
            e = rnd.choice(sorted(imps))
            imps.discard(e)
        elif k == "add-undrawn":
            und = [p for p in pairs if p not in rel]
            if und:
                a, b = rnd.choice(und)
                imps.add((member(a), member(b)))
        elif k == "bystander":
            imps.add((member(rnd.choice(comps)), f"{BASE}.by1"))
        elif k == "from-sub":
            c = rnd.choice(comps)
            imps.add((member(c), f"{top}.other"))
        elif k == "into-bystander-sub":
            imps.add((f"{BASE}.by2", member(rnd.choice(comps))))
        else:
            imps.add((f"{top}.other", f"{BASE}.by1"))
        pert.append(k)
    if not many and rnd.random() < 0.25:
        # an architecture that kept its external libraries, one of which is named like a diagram component (json, core, ...):
        # with_base_module(p) still means p.<component>
        for c in rnd.sample(comps, rnd.randint(1, min(2, len(comps)))):
            ext = c.split(".")[0]
            if ext == top:
                continue
            mods += [ext] + ([f"{ext}.impl"] if rnd.random() < 0.5 else [])
            for _ in range(rnd.randint(0, 2)):
                imps.add((member(rnd.choice(comps)), rnd.choice([m for m in mods if m == ext or m.startswith(ext + ".")])))
            pert.append("external-named-like-component")
    imps = sorted(e for e in imps if e[0] != e[1])
    return {"comps": comps, "rel": rel, "mods": mods, "imps": imps, "pert": pert, "base": BASE}


def diagram_spec(rnd, comps, rel, prefix=None):
    names = [f"{prefix}.{c}" if prefix else c for c in comps]
    m = dict(zip(comps, names))
    decl = {}
    for i, c in enumerate(comps):
        form = rnd.choice(["[n]", "component [n]", "[n] as a", "none"])
        decl[m[c]] = (form, f"al{i}" if " as a" in form else None)
    referenced = {x for p in rel for x in p}
    for c in comps:
        if decl[m[c]][0] == "none" and c not in referenced:
            decl[m[c]] = ("[n]", None)
    arrow_forms = [(rnd.choice(rpuml.ARROWS), rnd.choice(rpuml.REF_FORMS), rnd.choice(rpuml.REF_FORMS), rnd.choice(c06.WORDS)) for _ in rel]
    return {"components": names, "relation": [(m[a], m[b]) for a, b in rel], "decl": decl, "arrow_forms": arrow_forms}


def write_diagram(spec, name, newline=None):
    d = os.path.join(trees.scratch_dir(), "puml7")
    os.makedirs(d, exist_ok=True)
    path = os.path.join(d, name)
    with open(path, "w", newline="") as f:
        text = rpuml.render(spec)
        f.write(text.replace("\n", newline) if newline else text)  # diagrams saved with Windows line endings
    comps, rel = rpuml.truth(spec)
    register_puml(path, comps, rel)
    return path


def evaluate(case, acc, seed_for_forms):
    from pytestarch import DiagramRule

    rnd = random.Random(seed_for_forms)
    BASE = case.get("base", "r.app")
    ev = build(case["mods"], [tuple(i) for i in case["imps"]])
    HUB.case = dict(case, kind="diagram", forms_seed=seed_for_forms)
    crlf = rnd.random() < 0.25
    if crlf:
        acc.count("diagrams_with_crlf_line_endings")
    short = write_diagram(diagram_spec(rnd, case["comps"], [tuple(r) for r in case["rel"]]), f"s{acc.evaluations}.puml", "\r\n" if crlf else None)
    fq = write_diagram(diagram_spec(rnd, case["comps"], [tuple(r) for r in case["rel"]], prefix=BASE), f"f{acc.evaluations}.puml", "\r\n" if crlf else None)
    relative = rnd.random() < 0.3  # the diagram named relative to the current working directory
    results = {}
    for mode in (True, False):
        before = acc.counters["c07_judged"]
        r1 = DiagramRule(should_only_rule=mode) if rnd.random() < 0.6 else DiagramRule(mode)  # by keyword / by position
        if mode and rnd.random() < 0.5:
            r1 = DiagramRule()  # the documented default mode
            r1.__dict__["_pta_intent_should_only"] = True
            acc.count("diagram_rules_in_default_mode")
        if relative:
            cwd = os.getcwd()
            os.chdir(os.path.dirname(short))
            try:
                o1, m1 = run(r1.from_file(Path(os.path.basename(short))).with_base_module(BASE), ev)
            finally:
                os.chdir(cwd)
            acc.count("diagrams_named_relative_to_the_working_directory")
        elif rnd.random() < 0.25:
            # a half-configured rule (diagram given, base module not yet) is COPIED - copy.copy, copy.deepcopy or a pickle
            # round trip - and copy and original are finished for different sub-systems: each is its own rule
            import copy as _copy
            import pickle as _pickle

            how = rnd.choice(["copy", "deepcopy", "pickle"])
            proto = r1.from_file(Path(short))
            twin = _copy.copy(proto) if how == "copy" else _copy.deepcopy(proto) if how == "deepcopy" else _pickle.loads(_pickle.dumps(proto))
            mine, other = (twin, proto) if rnd.random() < 0.5 else (proto, twin)
            mine.with_base_module(BASE)
            other.with_base_module("r.zz_another_sub_system")
            o1, m1 = run(mine, ev)
            acc.count("diagram_rules_finished_on_a_copy_of_a_half_configured_rule:" + how)
        elif rnd.random() < 0.15:
            # the base module as a member of a str-mixin Enum (class Packages(str, Enum)) / an instance of a str subclass
            from ..drive import typed_names

            o1, m1 = run(r1.from_file(Path(short)).with_base_module(typed_names([BASE], rnd.choice(["enum", "strsub", "strenum"]))[0]), ev)
            acc.count("diagram_rules_with_a_base_module_of_another_str_type")
        else:
            o1, m1 = run(r1.from_file(Path(short)).with_base_module(BASE), ev)
        o2, m2 = run(DiagramRule(should_only_rule=mode).from_file(Path(fq)).base_module_included_in_module_names(), ev)
        acc.evaluated(2)
        acc.count("twin_pairs")
        if o1 != o2 or (m1 is not None and set(m1.split("\n")) != set(m2.split("\n"))):
            HUB.violation("C07", f"base-module-twin-differs:{'should_only' if mode else 'should'}", "with_base_module(p) on short names differs from fully qualified component names", {"short": [o1, m1], "fq": [o2, m2], "case": case})
        if BASE != "r.app":
            acc.count("base_module_named_like_a_component")
        if any(c.startswith(BASE + ".") for c in case["comps"]):
            acc.count("dotted_components_starting_with_the_base_name")
        if case["rel"] and case["imps"] and acc.counters["c07_judged"] > before:
            acc.nontrivial({"c": case, "m": mode})
        results[mode] = o1
    os.unlink(short)
    os.unlink(fq)
    return results


def reuse_sequence(case, acc, seed_for_forms):
    """ONE DiagramRule object applied to several architectures over the same components: the case's own
    (possibly violating) graph, a graph that conforms exactly, and the first one again.  Every call is judged
    by the monitor against the graph it was given; state carried over on the rule object shows up as a wrong
    verdict or as messages of an earlier evaluation."""
    from pytestarch import DiagramRule

    rnd = random.Random(seed_for_forms)
    BASE = case.get("base", "r.app")
    rel = [tuple(r) for r in case["rel"]]
    conforming = sorted((f"{BASE}.{a}", f"{BASE}.{b}") for a, b in rel)
    graphs = [[tuple(i) for i in case["imps"]], conforming, [tuple(i) for i in case["imps"]]]
    if rnd.random() < 0.5:
        graphs.reverse()
    path = write_diagram(diagram_spec(rnd, case["comps"], rel), f"r{acc.evaluations}.puml")
    mode = rnd.random() < 0.5
    rule = DiagramRule(should_only_rule=mode).from_file(Path(path)).with_base_module(BASE)
    outcomes = []
    for k, imps in enumerate(graphs):
        ev = build(case["mods"], imps)
        HUB.case = dict(case, kind="diagram-reuse", forms_seed=seed_for_forms, step=k)
        outcomes.append(run(rule, ev)[0])
        acc.evaluated()
    # the same rule object re-pointed to a second sub-system with the same component names (one diagram shared by
    # services.billing / services.shipping): what counts is the base module the object has when it is applied
    if "." in BASE and all("." not in c for c in case["comps"]):
        base2 = BASE + "2"
        mods2 = sorted(set(case["mods"]) | {base2} | {f"{base2}.{c}" for c in case["comps"]})
        conf1 = sorted((f"{BASE}.{a}", f"{BASE}.{b}") for a, b in rel)
        # sub-system 2 draws the arrows the other way round (violating unless the diagram is symmetric)
        imps2 = sorted(set(conf1) | {(f"{base2}.{b}", f"{base2}.{a}") for a, b in rel})
        ev2 = build(mods2, imps2)
        HUB.case = dict(case, kind="diagram-reuse", forms_seed=seed_for_forms, step="re-based")
        for b in (BASE, base2, BASE):
            rule.with_base_module(b)
            outcomes.append(run(rule, ev2)[0])
            acc.evaluated()
        acc.count("reused_rule_objects_rebased")
    acc.count("reused_rule_sequences")
    if len(set(outcomes)) > 1:
        acc.count("reused_rule_sequences_with_changing_verdict")
    os.unlink(path)


def two_rules_interleaved(cases, acc, seed_for_forms):
    """Two DiagramRule objects configured with their calls interleaved (different diagrams, base modules and modes) and
    applied alternately: each is judged on its own diagram, base module and graph."""
    from pytestarch import DiagramRule

    rnd = random.Random(seed_for_forms)
    evs = [build(c["mods"], [tuple(i) for i in c["imps"]]) for c in cases]
    paths = [write_diagram(diagram_spec(rnd, c["comps"], [tuple(r) for r in c["rel"]]), f"i{acc.evaluations}_{k}.puml") for k, c in enumerate(cases)]
    modes = [rnd.random() < 0.5 for _ in cases]
    rules = [None] * len(cases)
    steps = [k for k in range(len(cases)) for _ in range(3)]
    rnd.shuffle(steps)
    pos = [0] * len(cases)
    for k in steps:
        if pos[k] == 0:
            rules[k] = DiagramRule(should_only_rule=modes[k])
        elif pos[k] == 1:
            rules[k].from_file(Path(paths[k]))
        else:
            rules[k].with_base_module(cases[k].get("base", "r.app"))
        pos[k] += 1
    order = list(range(len(cases))) * 2
    rnd.shuffle(order)
    for k in order:
        HUB.case = {"kind": "diagram-interleaved", "cases": cases, "forms_seed": seed_for_forms, "applied": k}
        run(rules[k], evs[k])
        acc.evaluated()
    acc.count("diagram_rules_configured_interleaved", len(cases))
    for p_ in paths:
        os.unlink(p_)


def run_shard(spec, acc):
    rnd = random.Random(spec["seed"])
    prev = None
    for i in range(spec["n"]):
        case = gen_case(rnd)
        evaluate(case, acc, rnd.randint(0, 10**6))
        if i % 4 == 1 and prev is not None:
            two_rules_interleaved([prev, case], acc, rnd.randint(0, 10**6))
        prev = case
        if i % 3 == 0:
            reuse_sequence(case, acc, rnd.randint(0, 10**6))
        acc.hist("perturbations", len(case["pert"]))
        if "external-named-like-component" in case["pert"]:
            acc.count("architectures_with_an_external_module_named_like_a_component")
        if i % 67 == 0:
            acc.sample({"components": case["comps"], "drawn": case["rel"], "imports": case["imps"], "perturbations": case["pert"]})


def replay(case, acc):
    if case.get("kind") == "diagram-interleaved":
        return two_rules_interleaved(case["cases"], acc, case.get("forms_seed", 0))
    if case.get("kind") == "diagram-reuse":
        return reuse_sequence(case, acc, case.get("forms_seed", 0))
    evaluate(case, acc, case.get("forms_seed", 0))


def floors(acc, tier):
    why = []
    h = acc.hists.get("c07_failing_rules", {})
    if h.get("0", 0) == 0 or h.get("1", 0) == 0 or sum(v for k, v in h.items() if int(k) >= 2) == 0:
        why.append(f"failing-rule histogram lacks 0/1/>=2: {dict(h)}")
    m = acc.hists.get("c07_mode_naming", {})
    for mode in ("should_only", "should"):
        for naming in ("base", "fq"):
            for o in ("pass", "fail"):
                if m.get(f"{mode}:{naming}:{o}", 0) == 0:
                    why.append(f"never observed {mode}:{naming}:{o}")
    if acc.counters["dotted_components_starting_with_the_base_name"] < 30:
        why.append("too few diagrams with dotted components that start with the base module's name")
    if acc.counters["base_module_named_like_a_component"] < 50:
        why.append("too few cases with a component named like the base module")
    if acc.counters["reused_rule_sequences_with_changing_verdict"] < 20:
        why.append(f"only {acc.counters['reused_rule_sequences_with_changing_verdict']} re-used rule objects saw both a conforming and a violating architecture")
    for c in ("diagrams_with_crlf_line_endings", "diagrams_named_relative_to_the_working_directory"):
        if acc.counters[c] < 50:
            why.append(f"{c}: only {acc.counters[c]}")
    if acc.counters["architectures_with_an_external_module_named_like_a_component"] < 50:
        why.append(f"only {acc.counters['architectures_with_an_external_module_named_like_a_component']} architectures with an external module named like a component")
    for how in ("copy", "deepcopy", "pickle"):
        if acc.counters["diagram_rules_finished_on_a_copy_of_a_half_configured_rule:" + how] < 20:
            why.append(f"too few diagram rules finished on a {how} of a half-configured rule")
    if acc.counters["diagram_rules_configured_interleaved"] < 50:
        why.append(f"only {acc.counters['diagram_rules_configured_interleaved']} diagram rules configured while another one was being configured")
    if acc.counters["c07_judged"] < 1000:
        why.append(f"only {acc.counters['c07_judged']} diagram evaluations judged")
    return why
