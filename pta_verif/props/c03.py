"""C03 - violation reports name exactly the offending / missing imports.

Deciding step: second post-condition of the Rule.assert_applies monitor (report parsed into
line-sets and compared with R-RULE's violating sets; plus the universal check that every
positive line is a real import that involves the rule subject), and the contracts on the three
EvaluableArchitecture query methods (monitors_more.install_query_contracts).
Workload: C01's space restricted to failing outcomes, plus import chains.
"""
from __future__ import annotations

import random

from ..drive import build, mk_rule, random_tree, run
from ..monitors import HUB
from . import c01

ID = "C03"
LEVEL = "exploration"
TECHNIQUE = "online report post-condition: AssertionError text parsed into line-sets and compared with R-RULE's violating sets; universal subject-involvement check"
LEVEL_TEXT = 'Held on every observed failing evaluation: the parsed report equals the reference violating set in both directions of inclusion (strict domain), and every positive line is a real import involving the subject (all well-formed rules). Complete over small trees, sampled beyond.'
LEVEL_NOTE = "Trusts R-RULE's violating sets and the message parser (an unparseable line is itself reported)."
LEVEL_TEXT += " Reports of failing layer rules (C05's driver, incl. layers that list a module next to its ancestor) are compared with the violating set of R-LAYER as well. Additionally an end-to-end soak: random projects on disk are scanned with the real scanner (externals kept or dropped, external exclusions, level limits, module_path below the root) and module rules, layer rules, diagram rules and plots are interleaved on those architectures with every monitor armed."
LEVEL_TEXT += ' Name pools include unusual legal identifiers (non-ASCII, combining marks, U+00B7, case / zero-padding twins, py*/init* names).'
RULE = (
    "an evaluation = one failing-or-passing Rule.assert_applies crossing the monitored boundary; non-trivial = the rule "
    "FAILED and its report was parsed and compared line-set against R-RULE's violating sets; distinct = distinct "
    "(tree, relation, rule) triples"
)
ASSUMPTIONS = c01.ASSUMPTIONS + [
    "report compared as sets of parsed lines (order and wording of the fixed phrases are not part of the property)",
]
SHARD_TIMEOUT = c01.SHARD_TIMEOUT

BUCKETS = [
    "should", "should_except", "should_not", "should_not_except",
    "should_only:forbidden", "should_only:no_import", "should_only_except:forbidden", "should_only_except:no_import",
]


def plan(tier, seed):
    specs = []
    nsh = 6 if tier == "quick" else 16
    ex = [("T1", 2), ("T2", 8), ("T3", 8)] if tier == "quick" else [("T1", 1), ("T2", 1), ("T3", 1), ("T4", 1), ("U1", 32)]
    for i in range(nsh):
        specs.append({"kind": "exhaustive", "trees": ex, "part": i, "parts": nsh})
    for i in range(5 if tier == "quick" else 16):
        specs.append({"kind": "random", "n": 2500 if tier == "quick" else 40000})
    for i in range(3 if tier == "quick" else 8):
        specs.append({"kind": "chains", "n": 1500 if tier == "quick" else 20000})
    for i in range(2 if tier == "quick" else 6):
        specs.append({"kind": "regex_reports", "n": 500 if tier == "quick" else 8000})
    for i in range(2 if tier == "quick" else 8):
        specs.append({"kind": "big", "n": 10 if tier == "quick" else 150})
    for i in range(2 if tier == "quick" else 6):
        specs.append({"kind": "layer_reports", "n": 1500 if tier == "quick" else 30000})  # C05's driver; C03's report judge
    return specs


def _eval(ev, mods, imps, cfg, acc, nontrivial_key=None, list_form=None):
    HUB.case = {"kind": "rule", "mods": mods, "imps": imps, "cfg": cfg, "list_form": list_form}
    before = acc.counters["c03_judged"]
    run(mk_rule(cfg, list_form, retarget=c01._decoy(ev, mods, cfg), copied=c01._copy_plan(mods, cfg)), ev)
    acc.evaluated()
    if acc.counters["c03_judged"] > before:
        acc.nontrivial(nontrivial_key if nontrivial_key is not None else {"m": mods, "i": imps, "c": cfg})


def run_shard(spec, acc):
    c01._eval = _eval  # same drivers, C03's accounting
    if spec["kind"] == "exhaustive":
        c01.exhaustive(spec, acc)
    elif spec["kind"] == "random":
        c01.randomised(spec, acc)
    elif spec["kind"] == "big":
        c01.big(spec, acc)
    elif spec["kind"] == "regex_reports":
        regex_reports(spec, acc)
    elif spec["kind"] == "layer_reports":
        from . import c05

        c05.run_shard(spec, acc)
    else:
        chains(spec, acc)


def chains(spec, acc):
    """Import chains (importer of an importer of the subject, importee of an importee) and
    several simultaneous violations."""
    rnd = random.Random(spec["seed"])
    done = 0
    rounds = 0
    while done < spec["n"]:
        rounds += 1
        if rounds % 12 == 1:
            from .. import lazyscan

            lazyscan.late_use_with_rules(rnd, acc, "C03")
        mods = random_tree(rnd, 8, 12, depth=3)
        leaves = [m for m in mods if m != "r"]
        imps = set()
        for _ in range(rnd.randint(2, 4)):
            chain = rnd.sample(leaves, min(len(leaves), rnd.randint(3, 5)))
            for a, b in zip(chain, chain[1:]):
                if not (b.startswith(a + ".") and b.count(".") == a.count(".") + 1):
                    imps.add((a, b))
        imps = sorted(imps)
        ev = build(mods, imps)
        for _ in range(10):
            cfg = c01.random_cfg(rnd, mods)
            if cfg is None:
                continue
            _eval(ev, mods, imps, cfg, acc)
            done += 1
            if done % 499 == 1:
                acc.sample({"kind": "chain", "modules": mods, "imports": imps, "rule": cfg})
    acc.count("chain_cases", done)


REGEX_POOL = [r"r\.[a-z_]+$", r"r\.a($|\.)", r"r\.(a|b|core|util)$", r"r\.[a-z_]+\.[a-z_]+$", r"r\.(x|y|z)(\..*)?$", r"r\.[abc].*", r".*\.util$", r"r\.(p|q|d|e)\b.*"]


def regex_reports(spec, acc):
    """For a rule given by regex the violating set is defined over the matched modules: its report must be
    the report of the rule that names those modules (computed by the driver with re.match over THIS
    architecture).  A small fixed pool of pattern strings is used over and over on different architectures
    in one process."""
    import re

    from ..refmodel import msgparse

    rnd = random.Random(spec["seed"])
    done = 0
    while done < spec["n"]:
        mods = random_tree(rnd, 8, 13)
        imps = c01.random_imports(rnd, mods, k_max=12)
        ev = build(mods, imps)
        for _ in range(6):
            rx = rnd.choice(REGEX_POOL)
            matches = sorted(m for m in mods if re.match(rx, m))
            if not matches:
                continue
            names = [m for m in mods if m != "r"]
            other = ("named", rnd.choice(names))
            verb, d, exc = rnd.choice(c01.rrule.VERBS), rnd.choice(c01.rrule.DIRS), rnd.random() < 0.5
            side = rnd.choice(["subject", "object"])
            if side == "subject":
                compact = {"verb": verb, "dir": d, "exc": exc, "subs": [("regex", rx)], "objs": [other], "anything": False}
                expansion = dict(compact, subs=[("named", m) for m in matches])
            else:
                compact = {"verb": verb, "dir": d, "exc": exc, "subs": [other], "objs": [("regex", rx)], "anything": False}
                expansion = dict(compact, objs=[("named", m) for m in matches])
            case = {"kind": "regex_report", "mods": mods, "imps": imps, "compact": compact, "expansion": expansion}
            HUB.case = case
            o1, m1 = run(mk_rule(compact), ev)
            o2, m2 = run(mk_rule(expansion), ev)
            acc.evaluated(2)
            done += 1
            acc.count("regex_report_pairs")
            if o1 != "fail" or o2 != "fail":
                continue
            try:
                p1, p2 = msgparse.parse_module_message(m1), msgparse.parse_module_message(m2)
            except msgparse.Unparseable:
                continue
            acc.count("regex_reports_compared")
            acc.nontrivial({"m": mods, "i": imps, "c": compact})
            if p1 != p2:
                HUB.violation("C03", f"regex-report-vs-expansion:{side}:{c01.rrule.shape(compact)}", "report of a regex rule differs from the report of the rule naming the matched modules", {"case": case, "regex_report": m1, "expansion_report": m2})


def replay(case, acc):
    if case.get("kind") == "layer":
        from . import c05

        return c05.replay(case, acc)
    if case.get("kind") == "late-use":
        from .. import lazyscan

        return lazyscan.late_use_with_rules(None, acc, "C03", forced=case)
    if case.get("kind") == "regex_report":
        from ..refmodel import msgparse

        ev = build(case["mods"], [tuple(i) for i in case["imps"]])
        HUB.case = case
        fix = lambda c: dict(c, subs=[tuple(x) for x in c["subs"]], objs=[tuple(x) for x in c["objs"]])  # noqa: E731
        o1, m1 = run(mk_rule(fix(case["compact"])), ev)
        o2, m2 = run(mk_rule(fix(case["expansion"])), ev)
        if o1 == o2 == "fail" and msgparse.parse_module_message(m1) != msgparse.parse_module_message(m2):
            HUB.violation("C03", "regex-report-vs-expansion:replayed", "report of a regex rule differs from the report of the rule naming the matched modules", {"regex_report": m1, "expansion_report": m2})
        return
    c01.replay(case, acc)


def floors(acc, tier):
    why = []
    h = acc.hists.get("c03_bucket", {})
    for b in BUCKETS:
        if h.get(b, 0) == 0:
            why.append(f"violation bucket {b} never fired")
    if acc.counters["regex_reports_compared"] < 200:
        why.append(f"only {acc.counters['regex_reports_compared']} regex reports compared")
    if acc.counters["c01_judged_nested_lists"] < 100:
        why.append(f"only {acc.counters['c01_judged_nested_lists']} rules with nested module lists on one side judged")
    if acc.counters["c03_layer_reports_judged"] < 300:
        why.append(f"only {acc.counters['c03_layer_reports_judged']} reports of failing layer rules compared")
    if acc.counters["rules_on_architectures_first_used_after_a_change"] < 50:
        why.append("too few reports on scanned architectures that were first used after the tree / the working directory changed")
    if acc.counters["c03_judged"] < 5000:
        why.append(f"only {acc.counters['c03_judged']} reports compared")
    acc.flags["exhaustive"] = bool(acc.flags.get("exhaustive_T1"))
    acc.flags["exhaustive_subspaces"] = "failing rules over every import relation of tree T1 (thorough: T1-T4)"
    return why
