"""C04 - modules and hierarchy mirror the scanned directory tree, named from root_path;
module_path and entry-point equivalences.

Deciding steps: (1) online R-SCAN post-condition on every scan (module half) + hierarchy
invariant hook; (2) offline checker over the scan events of one tree: scan(root, sub) equals
scan(root, root) restricted to the sub-tree (fully qualified sources), module-object entry
point equals path entry point; (3) absolute imports written relative to module_path's parent
resolve (judged by the monitor against R-SCAN).
"""
from __future__ import annotations

import os
import random
import types

from .. import trees
from ..monitors import HUB
from ..monitors_more import attribute_scan_findings
from ..refmodel.names import is_ancestor

ID = "C04"
LEVEL = "exploration"
TECHNIQUE = "online R-SCAN post-condition + hierarchy-invariant hook on every scan; offline equivalence checker over scan events (sub-directory scan vs restricted full scan, module-object vs path entry point)"
LEVEL_TEXT = (
    "Held on every observed scan: node set equals the independently walked directory tree (one module per non-excluded .py file and "
    "directory, named from root_path, plus ancestors), hierarchy edges are exactly parent->child by dotted components, and for every "
    "directory of every generated tree used as module_path the stated equivalences held. Seeded random trees (depth <= 5, prefix-sibling names)."
)
LEVEL_NOTE = "Trusts R-SCAN's directory walk (os/pathlib) and the raw networkx graph; x.py beside x/, dotted directory names and a directory named like the root are not generated."
LEVEL_TEXT += ' Scans with several excluded sibling directories below one parent are included. The same directories are also given with a trailing slash, as pathlib.Path objects and relative to the current working directory (same architecture required).'
LEVEL_TEXT += ' Trees may contain a package named like the root directory (scanned as module_path). Extra shards scan random projects (a quarter of them wide and deep) under independently drawn options - file exclusions, level limit, kept externals with external exclusions, module_path below the root, module-object entry point - judged by the same deciding steps. Name pools include unusual legal identifiers (non-ASCII, combining marks, U+00B7, case / zero-padding twins, py*/init* names).'
RULE = (
    "an evaluation = one scan (tree x module_path x entry point) judged by the monitor; non-trivial = module_path differs from root_path "
    "or the tree has prefix-sibling names or >= 3 directory levels; distinct = distinct (tree digest, module_path, entry point)"
)
ASSUMPTIONS = [
    "equivalence (a) is checked on trees whose absolute imports are fully qualified from the root (the full scan cannot resolve module_path-parent-relative names, as the property implies)",
    "imports of a module's own ancestor packages are ignored in comparisons (outside C02's claim)",
]
SHARD_TIMEOUT = {"quick": 900, "thorough": 3000}

MAPPING = {"nodes": "C04", "hierarchy": "C04"}


def _fake_module(dirpath):
    m = types.ModuleType(os.path.basename(dirpath))
    m.__file__ = os.path.join(dirpath, "__init__.py")
    return m


class _PathLike:
    def __init__(self, p):
        self._p = p

    def __fspath__(self):
        return self._p


class _StrSub(str):
    pass


def plan(tier, seed):
    n = 10 if tier == "quick" else 16
    return [{"kind": "trees", "n": 45 if tier == "quick" else 1600} for _ in range(n)]


def run_shard(spec, acc):
    rnd = random.Random(spec["seed"])
    for i in range(spec["n"]):
        relative_style = rnd.random() < 0.35
        tspec = gen(rnd, relative_style)
        one_tree(tspec, relative_style, acc, rnd)
        if i % 23 == 0:
            acc.sample({"dirs": trees.all_dirs(tspec), "files": sorted(tspec["files"])[:12], "relative_style_imports": relative_style})


def gen(rnd, relative_style):
    depth = rnd.choice([2, 3, 4, 5])
    names = trees.NAMES if rnd.random() < 0.7 else ["a", "ab", "a_b", "aa", "a0", "ba", "b"]
    root_named = rnd.random() < 0.2
    spec = trees.random_project(rnd, depth=depth, imports_per_file=(0, 3), names=names, name_imports=0.3, externals=0.1, dangling=0.08, root_named_dir=root_named)
    for f in sorted(spec["files"]):
        if f.endswith(".py") and rnd.random() < 0.25:
            spec["files"][f] = "from . import not_a_module_name\n" + spec["files"][f]
        if f.endswith(".py") and f.count("/") >= 1 and rnd.random() < 0.3:
            # a NAME imported from an ancestor package (from proj import VERSION): an import of the ancestor
            anc = trees.mod_of("proj", f).split(".")[:-1]
            k = rnd.randint(1, len(anc))
            stmt = rnd.choice([f"from {'.'.join(anc[:k])} import SOME_CONSTANT", "from " + "." * (len(anc) - k + 1) + " import SOME_CONSTANT"])
            spec["files"][f] = stmt + "\n" + spec["files"][f]
    if rnd.random() < 0.12:
        # a package reachable under a second name through a directory symlink (never shallower than its target, so the
        # relative imports of the linked files stay inside the root): one module per directory ENTRY
        all_d = trees.all_dirs(spec)
        depth_of = lambda d: d.count("/") + 1 if d else 0  # noqa: E731
        targets = [d for d in all_d if d and "emptydir" not in d]
        if targets:
            target = rnd.choice(targets)
            homes = [d for d in all_d if d != target and not d.startswith(target + "/") and depth_of(d) + 1 >= depth_of(target)]
            if homes:
                home = rnd.choice(homes)
                spec["symlinks"] = [((home + "/" if home else "") + "lnk", target)]
    if relative_style:
        # rewrite some absolute imports relative to the parent of a randomly chosen module_path
        dirs = [d for d in trees.all_dirs(spec) if d]
        if dirs:
            mp = rnd.choice(dirs)
            if root_named and "proj" in dirs and rnd.random() < 0.7:
                mp = "proj"  # module_path = <root>/<root>
            spec["_mp_hint"] = mp
            trees.relativise(spec, mp, rnd)
    return spec


def restricted(nodes, imps, sub):
    keep = {n for n in nodes if n == sub or is_ancestor(sub, n) or is_ancestor(n, sub)}
    below = {n for n in nodes if n == sub or is_ancestor(sub, n)}
    return keep, {(a, b) for a, b in imps if a in below and b in below and not is_ancestor(b, a)}


def one_tree(tspec, relative_style, acc, rnd, only_mp=None, force_excl=None, force_regex=None):
    from pytestarch import get_evaluable_architecture, get_evaluable_architecture_for_module_objects

    hint = tspec.pop("_mp_hint", None)
    root = trees.write_tree(tspec)
    case = {"kind": "tree", "spec": tspec, "relative_style": relative_style, "hint": hint}
    try:
        HUB.case = case
        get_evaluable_architecture(root, root)
        full = HUB.scan_events[-1]
        attribute_scan_findings(full, MAPPING, case)
        acc.evaluated()
        # the public accessor: the same modules as the graph; what it returns belongs to the caller (emptied / extended,
        # it must not change what the architecture says next time)
        try:
            ms = full.evaluable.modules
            first = set(ms)
            if isinstance(ms, list):
                ms.clear() if rnd.random() < 0.5 else ms.extend(["elsewhere", "elsewhere.mod"])
            again = set(full.evaluable.modules)
            acc.count("modules_accessor_reads")
            if first != set(full.nodes):
                HUB.violation("C04", "modules-accessor-differs-from-the-graph", "EvaluableArchitecture.modules differs from the modules of the graph", {"diff": sorted(first ^ set(full.nodes))[:12]})
            elif again != first:
                HUB.violation("C04", "modules-accessor-result-is-shared", "editing the list returned by EvaluableArchitecture.modules changes what the accessor returns next", {"diff": sorted(again ^ first)[:12]})
        except Exception as e:  # noqa: BLE001
            acc.hist("modules_accessor_unavailable", type(e).__name__)
        sub_modules_through_rules(full, case, rnd, acc)
        dirs = trees.all_dirs(tspec)
        names_in_tree = {p for d in dirs for p in d.split("/")}
        prefix_siblings = any(a != b and b.startswith(a) for a in names_in_tree for b in names_in_tree if a)
        acc.hist("depth", max(d.count("/") + 1 if d else 0 for d in dirs))
        if prefix_siblings:
            acc.count("prefix_sibling_trees")
        mps = [d for d in dirs if d]
        if only_mp is not None:
            mps = [only_mp]
        for mp in mps:
            c2 = dict(case, mp=mp)
            HUB.case = c2
            mp_abs = os.path.join(root, mp)
            get_evaluable_architecture(root, mp_abs)
            se = HUB.scan_events[-1]
            acc.evaluated()
            acc.nontrivial({"t": tspec, "mp": mp, "e": "path"})
            acc.hist("module_path_depth", mp.count("/") + 1)
            attribute_scan_findings(se, MAPPING, c2)
            # (3) module_path-parent-relative absolute imports must resolve
            for c, k, text, detail in se.findings:
                if c == "edge-missing" and isinstance(detail, dict) and detail.get("via_prefix"):
                    HUB.violation("C04", "mp-parent-relative-import-unresolved", text, detail)
            if se.model:
                acc.count("via_prefix_statements", sum(1 for s in se.model.statements if s.via_prefix))
            # (2a) sub-directory scan == restricted full scan (fully qualified sources only)
            if "proj" in dirs:
                # a package named like the root directory makes a fully qualified name ambiguous in the sub-directory scan
                # (it also resolves relative to module_path's parent): the equivalence is only claimed for unambiguous sources
                acc.count("root_named_package_scans")
            elif not relative_style:
                sub = trees.mod_of("proj", mp)
                en, ei = restricted(full.nodes, full.imps, sub)
                gn, gi = restricted(se.nodes, se.imps, sub)
                acc.count("subscan_equivalences")
                leaving = sorted((a, b) for a, b in se.imps if not ((a == sub or is_ancestor(sub, a)) and (b == sub or is_ancestor(sub, b))))
                if leaving:
                    HUB.violation("C04", "subscan-import-leaves-the-subtree", f"scan(module_path={mp}) with external libraries excluded contains imports that do not stay inside module_path", {"mp": mp, "imports": leaving[:10]})
                if se.nodes != en or gi != ei:
                    HUB.violation(
                        "C04",
                        "subscan-differs-from-restricted-full-scan",
                        f"scan(module_path={mp}) differs from the full scan restricted to it",
                        {"mp": mp, "nodes_extra": sorted(se.nodes - en), "nodes_missing": sorted(en - se.nodes), "imports_extra": sorted(gi - ei), "imports_missing": sorted(ei - gi)},
                    )
            # (2c) module-object entry point
            if rnd.random() < 0.6 or only_mp is not None:
                get_evaluable_architecture_for_module_objects(_fake_module(root), _fake_module(mp_abs))
                so = HUB.scan_events[-1]
                acc.evaluated()
                acc.count("entry_point_equivalences")
                acc.nontrivial({"t": tspec, "mp": mp, "e": "object"})
                if so.state != se.state:
                    HUB.violation("C04", "module-object-entry-point-differs", f"module-object entry point built a different architecture for module_path={mp}", {"mp": mp, "nodes_diff": sorted(so.nodes ^ se.nodes), "imports_diff": sorted(so.imps ^ se.imps)})
        # root through the module-object entry point as well
        get_evaluable_architecture_for_module_objects(_fake_module(root), _fake_module(root))
        so = HUB.scan_events[-1]
        acc.evaluated()
        acc.count("entry_point_equivalences")
        if so.state != full.state:
            HUB.violation("C04", "module-object-entry-point-differs", "module-object entry point built a different architecture for the root", {"nodes_diff": sorted(so.nodes ^ full.nodes), "imports_diff": sorted(so.imps ^ full.imps)})
        # the same tree reached through a directory symlink with another name: modules are named from the root_path that was
        # GIVEN (the link's name), by both entry points alike
        if rnd.random() < 0.3 or only_mp is not None:
            link = os.path.join(os.path.dirname(root), "alias_root")
            if not os.path.lexists(link):
                os.symlink(root, link, target_is_directory=True)
            mp_l = rnd.choice(dirs) if only_mp is None else only_mp
            mp_link = os.path.join(link, mp_l) if mp_l else link
            c6 = dict(case, mp=mp_l, via="symlinked root")
            HUB.case = c6
            get_evaluable_architecture(link, mp_link)
            sp = HUB.scan_events[-1]
            get_evaluable_architecture_for_module_objects(_fake_module(link), _fake_module(mp_link))
            so = HUB.scan_events[-1]
            acc.evaluated(2)
            acc.count("symlinked_root_scans")
            bad = sorted(n for n in sp.nodes if n != "alias_root" and not n.startswith("alias_root."))
            if bad:
                HUB.violation("C04", "modules-not-named-from-the-given-root", "modules of a scan whose root_path is a directory symlink are not named from that root_path", {"mp": mp_l, "modules": bad[:8]})
            if so.state != sp.state:
                HUB.violation("C04", "module-object-entry-point-differs", "module-object entry point built a different architecture than the path entry point (root reached through a symlink)", {"mp": mp_l, "nodes_diff": sorted(so.nodes ^ sp.nodes)[:10], "imports_diff": sorted(so.imps ^ sp.imps)[:10]})
        # the module set must not depend on whether external libraries are kept
        if rnd.random() < 0.5 or only_mp is not None:
            c3 = dict(case, include=True)
            HUB.case = c3
            get_evaluable_architecture(root, root, exclude_external_libraries=False)
            si = HUB.scan_events[-1]
            acc.evaluated()
            acc.count("include_mode_scans")
            attribute_scan_findings(si, MAPPING, c3)
        if rnd.random() < 0.5 or only_mp is not None:
            from pathlib import Path

            mp = rnd.choice(dirs) if only_mp is None else only_mp
            mp_abs = os.path.join(root, mp) if mp else root
            get_evaluable_architecture(root, mp_abs)
            plain = HUB.scan_events[-1]
            dirs_ = [d for d in dirs if d and "/" not in d]
            rel_root = os.path.basename(root)
            rel_mp = os.path.join(rel_root, mp) if mp else rel_root
            spellings = {
                "trailing-slash": (root + "/", mp_abs + "/"),
                "pathlib": (Path(root), Path(mp_abs)),
                "mixed": (root + "/", Path(mp_abs)),
                # relative to the current working directory (the usual spelling in a conftest.py that is run from the project's parent)
                "relative": (rel_root, rel_mp),
                "dot-relative": ("./" + rel_root, "./" + rel_mp + "/"),
                "relative-pathlib": (Path(rel_root), Path(rel_mp)),
                # the same directories spelled with '..' components
                "dotdot": (os.path.join(root, os.pardir, rel_root), os.path.join(mp_abs, os.pardir, os.path.basename(mp_abs)) if mp else os.path.join(root, os.pardir, rel_root)),
                "dotdot-through-a-child": (root, os.path.join(root, dirs_[0], os.pardir, mp) if (mp and dirs_) else root),
                # ... the '..' spellings as pathlib.Path objects (Path(__file__).parent / ".." / "src"), as another
                # os.PathLike object and as instances of a str subclass
                "pathlib-dotdot": (Path(root) / os.pardir / rel_root, (Path(mp_abs) / os.pardir / os.path.basename(mp_abs)) if mp else Path(root) / os.pardir / rel_root),
                "pathlib-dotdot-through-a-child": (Path(root), (Path(root) / dirs_[0] / os.pardir / mp) if (mp and dirs_) else Path(root)),
                "pathlike-dotdot": (_PathLike(os.path.join(root, os.pardir, rel_root)), _PathLike(mp_abs)),
                "str-subclass": (_StrSub(root), _StrSub(mp_abs + "/")),
            }
            for label, (r_arg, m_arg) in spellings.items():
                c5 = dict(case, mp=mp, spelling=label)
                HUB.case = c5
                cwd = os.getcwd()
                try:
                    if "relative" in label:
                        os.chdir(os.path.dirname(root))
                    get_evaluable_architecture(r_arg, m_arg)
                    sv = HUB.scan_events[-1]
                    same = sv.state == plain.state
                except Exception as e:  # noqa: BLE001
                    same, sv = False, None
                    HUB.violation("C04", f"path-spelling:{label}:raises-{type(e).__name__}", f"root_path/module_path given as {label} raised {e}", {"mp": mp})
                finally:
                    os.chdir(cwd)
                acc.evaluated()
                acc.count("path_spelling_variants")
                if sv is not None and not same:
                    HUB.violation("C04", f"path-spelling:{label}", f"the same directories given as {label} build a different architecture", {"mp": mp, "nodes_diff": sorted(sv.nodes ^ plain.nodes), "imports_diff": sorted(sv.imps ^ plain.imps)})
        dirs_nonroot = [d for d in dirs if d]
        if dirs_nonroot and (rnd.random() < 0.4 or only_mp is not None):
            d = rnd.choice(dirs_nonroot)
            # several excluded directories below one parent (neighbours in the parent's listing)
            sibs = [x for x in dirs_nonroot if os.path.dirname(x) == os.path.dirname(d) and x != d]
            chosen = [d] + rnd.sample(sibs, min(len(sibs), rnd.randint(0, 3)))
            if force_excl:
                chosen = list(force_excl)
            if len(chosen) > 1:
                acc.count("sibling_directory_exclusion_scans")
            c4 = dict(case, excluded_dir=d, excluded_dirs=chosen)
            HUB.case = c4
            get_evaluable_architecture(root, root, exclusions=tuple("*/" + os.path.basename(x) for x in chosen))
            sx = HUB.scan_events[-1]
            acc.evaluated()
            acc.count("directory_exclusion_scans")
            attribute_scan_findings(sx, MAPPING, c4)
        pyfiles = sorted(f for f in tspec["files"] if f.endswith(".py") and os.path.basename(f) != "__init__.py" and os.path.dirname(f))
        if pyfiles and dirs_nonroot and (rnd.random() < 0.3 or force_regex):
            # hand-written regular expressions with capturing groups: each pattern is matched on its own, so a
            # back-reference counts the groups of its own pattern (one directory and one file name go)
            import re as _re

            y = os.path.basename(rnd.choice(pyfiles))[:-3]
            x = os.path.basename(rnd.choice(dirs_nonroot))
            pats = force_regex or [".*/(" + _re.escape(x) + "|zz_no)$", r"(?=(.*/))\1" + _re.escape(y) + r"\.py$"]
            if not force_regex and not tspec.get("symlinks") and rnd.random() < 0.4:
                # (not on trees with a symlinked package: whether a file reached through the link is matched under the
                # link's or the target's spelling is something no property states)
                # a pattern that ends in a path separator: everything BELOW that directory goes, the directory itself and
                # its prefix siblings (build/ vs build_tools/, builder.py) stay
                x2 = os.path.basename(rnd.choice(dirs_nonroot))
                pats = [".*/" + _re.escape(x2) + "/"] + (pats[1:] if rnd.random() < 0.5 else [])
                acc.count("regex_exclusions_ending_in_a_separator")
            c6 = dict(case, regex_excl=pats)
            HUB.case = c6
            get_evaluable_architecture(root, root, exclusions=(), regex_exclusions=tuple(pats))
            sr = HUB.scan_events[-1]
            acc.evaluated()
            acc.count("regex_exclusion_scans_with_groups_and_backreferences")
            attribute_scan_findings(sr, MAPPING, c6)
            # the same patterns as a one-shot iterable (map / generator): the same modules
            for form, mk in (("generator", lambda: (p_ for p_ in pats)), ("map", lambda: map(str, pats)), ("list", lambda: list(pats))):
                try:
                    get_evaluable_architecture(root, root, exclusions=(), regex_exclusions=mk())
                    alt = HUB.scan_events[-1]
                except Exception as e:  # noqa: BLE001  (no architecture, no claim)
                    acc.hist("pattern_container_rejected", f"{form}:{type(e).__name__}")
                    continue
                acc.evaluated()
                acc.count("scans_with_patterns_in_another_container")
                if alt.nodes != sr.nodes:
                    HUB.violation("C04", f"patterns-as-{form}-differ-from-tuple", f"the same regex exclusions given as a {form} yield other modules than given as a tuple", dict(c6, form=form, nodes_diff=sorted(alt.nodes ^ sr.nodes)[:12]))
        acc.count("trees")
        if tspec.get("symlinks"):
            acc.count("trees_with_symlinked_package")
    finally:
        trees.remove_tree(root)


def sub_modules_through_rules(se, case, rnd, acc, n=3):
    """'The sub modules of a module are exactly the modules whose dotted name extends it' - seen through the public API:
    'sub modules of X should not import anything' fails exactly when a module whose name extends X imports a module that is
    neither X nor below X (imports of X itself by its sub modules are skipped: the docs are silent on them)."""
    from pytestarch import Rule

    nodes, imps = se.nodes, se.imps
    parents = sorted(x for x in nodes if any(is_ancestor(x, m) for m in nodes))
    if not parents:
        return
    for x in rnd.sample(parents, min(n, len(parents))):
        below = {m for m in nodes if is_ancestor(x, m)}
        for direction, leaving in (("import_anything", [(a, b) for a, b in imps if a in below and b not in below]), ("be_imported_by_anything", [(a, b) for a, b in imps if b in below and a not in below])):
            ends = {b for a, b in leaving} if direction == "import_anything" else {a for a, b in leaving}
            if x in ends:
                continue  # an import between X and its own sub modules: ambiguous, not judged
            expect = "fail" if leaving else "pass"
            rule = getattr(Rule().modules_that().are_sub_modules_of(x).should_not(), direction)()
            HUB.case = dict(case, sub_modules_of=x)
            try:
                rule.assert_applies(se.evaluable)
                got = "pass"
            except AssertionError:
                got = "fail"
            except Exception as e:  # noqa: BLE001
                got = f"error:{type(e).__name__}"
            acc.evaluated()
            acc.count("sub_module_sets_checked_through_rules")
            if got != expect:
                HUB.violation("C04", "sub-modules-differ-from-dotted-name-extension", f"'sub modules of {x} should not {direction}' gave {got}; by the module names {len(below)} modules lie below {x} and {len(leaving)} imports leave them", {"module": x, "below": sorted(below)[:12], "leaving": sorted(leaving)[:8]})


def replay(case, acc):
    spec = case["spec"]
    if case.get("hint"):
        spec["_mp_hint"] = case["hint"]
    one_tree(spec, case["relative_style"], acc, random.Random(0), only_mp=case.get("mp"), force_excl=case.get("excluded_dirs"), force_regex=case.get("regex_excl"))


def floors(acc, tier):
    why = []
    if acc.counters["scans_judged"] < 200:
        why.append(f"only {acc.counters['scans_judged']} scans judged")
    for c, n in (("subscan_equivalences", 100), ("entry_point_equivalences", 100), ("prefix_sibling_trees", 10), ("via_prefix_statements", 10), ("include_mode_scans", 30), ("sibling_directory_exclusion_scans", 10), ("root_named_package_scans", 20), ("trees_with_symlinked_package", 10), ("symlinked_root_scans", 30), ("regex_exclusion_scans_with_groups_and_backreferences", 10), ("path_spelling_variants", 100), ("scans_with_patterns_in_another_container", 20), ("modules_accessor_reads", 100), ("regex_exclusions_ending_in_a_separator", 10), ("sub_module_sets_checked_through_rules", 300)):
        if acc.counters[c] < n:
            why.append(f"{c}: only {acc.counters[c]}")
    if acc.counters["scan_model_errors"]:
        why.append(f"reference scanner crashed on {acc.counters['scan_model_errors']} scans")
    return why
