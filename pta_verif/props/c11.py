"""C11 - regex, partial-name and batched specifications equal their expansions.

Deciding step: offline checker over the event log: pairs (compact rule, expansion built by the
driver with an independent re.match over the architecture's modules) evaluated on the same
evaluable must have the same verdict; an unmatched regex must produce an error, never a verdict;
the deprecated partial-name form must equal R-GLOB's own regex translation; batches must equal the
conjunction of their members.
"""
from __future__ import annotations

import os
import random
import re
import warnings

from ..drive import FILTER_METHOD, IMPORT_METHOD, build, mk_rule, random_imports, random_tree, run
from ..monitors import HUB
from ..refmodel import glob as rglob
from ..refmodel import rules as rrule
from ..refmodel.names import close_under_ancestors, is_ancestor

ID = "C11"
LEVEL = "exploration"
TECHNIQUE = "offline checker over the recorded event log: compact rule vs driver-built expansion on the same evaluable (metamorphic)"
LEVEL_TEXT = (
    "Held on every observed pair: regex rule vs named-list expansion, partial-name vs regex translation, multi-subject rule vs "
    "conjunction of single-subject rules, multi-object should/should_not vs conjunction over objects; unmatched regexes observed to "
    "raise a non-verdict error. Seeded random graphs with regexes drawn from the graph's own names; related modules included."
)
LEVEL_NOTE = "Expansion uses Python's re.match over the module names read from the raw graph; no rule-semantics model is involved."
LEVEL_TEXT += ' Regex kinds include quantifiers after a literal, look-aheads, inline flags and unescaped dots; partial names with upper-case letters and in the other case.'
RULE = (
    "an evaluation = one Rule.assert_applies; a case = one law instance (compact rule + its expansion members on one evaluable); "
    "non-trivial = the compact rule gave a verdict on a non-empty import relation and the expansion has >= 2 members or the regex "
    "matched >= 2 modules; distinct = distinct (graph, compact rule) pairs"
)
ASSUMPTIONS = [
    "'anything' aliases are excluded from the batch law (documentation ambiguous for several subjects)",
    "messages are compared as line-sets for information only (counter message_diffs); the property speaks about verdicts",
]
SHARD_TIMEOUT = {"quick": 900, "thorough": 3000}


_IMPLIED = [None]  # prefix of never-listed top packages of the architecture at hand (recorded in every case for replay)


def outcome(cfg_or_rule, ev, acc):
    if callable(cfg_or_rule) and not hasattr(cfg_or_rule, "assert_applies"):
        # a thunk that builds the rule: a builder call that raises (e.g. a deprecated alias where warnings are errors)
        # gives no verdict either
        try:
            cfg_or_rule = cfg_or_rule()
        except Exception as e:  # noqa: BLE001
            acc.evaluated()
            acc.count("rules_whose_construction_raised")
            return "error", str(e), type(e).__name__
    r = mk_rule(cfg_or_rule) if isinstance(cfg_or_rule, dict) else cfg_or_rule
    start = len(HUB.log)
    HUB.keep_log = True
    run(r, ev)
    acc.evaluated()
    e = HUB.log[start]
    del HUB.log[start:]
    return e.outcome, e.message, e.exc_type


def regexes_for(rnd, mods):
    """(kind, pattern) drawn from the graph's own names."""
    names = [m for m in mods if m != "r"]
    m = rnd.choice(names)
    k = rnd.choice(["anchored", "prefix", "alt", "class", "suffix", "with_subs", "nomatch", "leaf", "inner", "alt_ungrouped", "alt_ungrouped", "optional", "optional_mid", "plus", "dot_any", "icase", "lookahead", "unicode_class", "wild_alt", "wild_alt", "bare", "bare", "range_quantifier"])
    if k == "range_quantifier":
        # a quantifier with a comma: r\.a\.\w{1,40}$
        p = m.rsplit(".", 1)
        return k, re.escape(p[0]) + r"\.[^.]{1,40}$"
    if k == "bare":
        # just the (escaped) name of a module: matches every name that STARTS with it, prefix siblings included
        return k, re.escape(m)
    if k == "wild_alt":
        # ungrouped alternation after a leading wildcard: '.*x$|frag' - the second branch is matched from the start too
        m2 = rnd.choice(names)
        cut = rnd.randint(1, max(1, len(m2) - 1))
        return k, ".*" + re.escape(m.rsplit(".", 1)[-1]) + "$|" + re.escape(m2[cut:])
    if k == "optional":
        # a quantifier directly after a literal: matches the name with and without its last character
        return k, re.escape(m) + "?" + rnd.choice(["$", "", r"(\..*)?$"])
    if k == "optional_mid":
        i = rnd.randint(3, len(m))
        return k, re.escape(m[:i]) + "?" + re.escape(m[i:]) + rnd.choice(["$", ""])
    if k == "plus":
        i = rnd.randint(3, len(m))
        return k, re.escape(m[:i]) + rnd.choice(["+", "*", "{1,2}"]) + re.escape(m[i:]) + "$"
    if k == "dot_any":
        return k, m + "$"  # unescaped dots match any character
    if k == "icase":
        return k, "(?i)" + re.escape(m.swapcase()) + "$"
    if k == "lookahead":
        p = m.rsplit(".", 1)
        return k, re.escape(p[0]) + r"\.(?!" + re.escape(p[-1][:1]) + r")\w+$"
    if k == "unicode_class":
        p = m.rsplit(".", 1)
        return k, re.escape(p[0]) + r"\.\w+$"
    if k == "anchored":
        return k, "^" + re.escape(m) + "$"
    if k == "prefix":
        cut = rnd.randint(3, len(m))
        return k, "^" + re.escape(m[:cut])
    if k == "alt":
        ms = rnd.sample(names, min(len(names), rnd.randint(2, 3)))
        return k, "^(" + "|".join(re.escape(x) for x in ms) + ")$"
    if k == "class":
        p = m.rsplit(".", 1)
        return k, re.escape(p[0]) + r"\.[a-z_]+$"
    if k == "suffix":
        return k, ".*" + re.escape(m.rsplit(".", 1)[-1]) + "$"
    if k == "with_subs":
        return k, re.escape(m) + r"(\..*)?$"
    if k == "leaf":
        return k, r"r\.[a-z_]+\.[a-z_]+$"
    if k == "inner":
        # a fragment from inside a name: the documentation says regexes are matched from the start of the name
        cut = rnd.randint(1, max(1, len(m) - 1))
        return k, re.escape(m[cut:]) + rnd.choice(["", "$"])
    if k == "alt_ungrouped":
        m2 = rnd.choice(names)
        cut = rnd.randint(1, max(1, len(m2) - 1))
        return k, re.escape(m) + "$|" + re.escape(m2[cut:]) + rnd.choice(["", "$"])
    return k, "^" + re.escape(m) + "_nomatch_zz$"


def plan(tier, seed):
    return [{"kind": "random", "n": 800 if tier == "quick" else 9000} for _ in range(10 if tier == "quick" else 16)]


def run_shard(spec, acc):
    rnd = random.Random(spec["seed"])
    (None if os.environ.get("PTA_WARNINGS_ARE_ERRORS") else warnings.simplefilter("ignore"))
    for i in range(spec["n"]):
        mods = random_tree(rnd, 7, 13)
        if i % 60 == 5:
            # magnitudes: a package with 100-260 direct children, so that regexes / partial names expand to 100+ modules
            big = rnd.choice([m for m in mods if m != "r"])
            mods = mods + [f"{big}.n{k}" for k in range(rnd.choice([99, 101, 130, 160]))]
            acc.count("architectures_with_100_or_more_siblings")
        imps = random_imports(rnd, mods, k_max=12 if len(mods) < 50 else 60)
        if i % 5 == 2:
            # an architecture whose top packages were never listed, only implied by the modules below them (what a scan
            # with module_path below root_path builds): they are modules like any other and regexes match them
            pre = rnd.choice(["top.mid.", "top.", "r.r."])
            listed = [pre + m for m in mods]
            imps = [(pre + a, pre + b) for a, b in imps]
            ev = build(listed, imps)
            mods = sorted(close_under_ancestors(listed))
            _IMPLIED[0] = pre
            acc.count("architectures_with_implied_top_packages")
        else:
            ev = build(mods, imps)
            _IMPLIED[0] = None
        for _ in range(3):
            law_regex(rnd, ev, mods, imps, acc)
        law_partial(rnd, ev, mods, imps, acc)
        law_batch_subjects(rnd, ev, mods, imps, acc)
        law_batch_objects(rnd, ev, mods, imps, acc)
        law_partial_list(rnd, ev, mods, imps, acc)
        law_regex_reused_object(rnd, ev, mods, imps, acc)
        if i % 97 == 0:
            acc.sample({"modules": mods, "imports": imps, "laws": "regex=expansion x3, partial-name=regex, multi-subject=conjunction, multi-object=conjunction"})


def _verb_dir(rnd):
    return rnd.choice(rrule.VERBS), rnd.choice(rrule.DIRS), rnd.random() < 0.5


def _other(rnd, mods, kind=None):
    kind = kind or rnd.choice(["named", "named", "sub"])
    names = [m for m in mods if m != "r"]
    return (kind, rnd.choice(names))


def law_regex(rnd, ev, mods, imps, acc, forced=None):
    verb, d, exc = _verb_dir(rnd)
    side = rnd.choice(["subject", "object", "both"])
    k1, rx1 = regexes_for(rnd, mods)
    k2, rx2 = regexes_for(rnd, mods)
    if forced:
        verb, d, exc, side, rx1, rx2 = forced[:6]
    m1 = sorted(m for m in mods if re.match(rx1, m))
    m2 = sorted(m for m in mods if re.match(rx2, m))
    other_s, other_o = _other(rnd, mods), _other(rnd, mods)
    if forced and len(forced) > 6:
        other_s, other_o = tuple(forced[6]), tuple(forced[7])
    if side == "anything" or (not forced and rnd.random() < 0.12):
        # the alias shapes: regex subject 'should not import anything' == the named matches 'should not import anything'
        side = "anything"
        compact = {"verb": "should_not", "dir": d, "exc": False, "subs": [("regex", rx1)], "objs": [], "anything": True}
        expansion = dict(compact, subs=[("named", m) for m in m1])
        unmatched = not m1
        nmatch = len(m1)
        verb, exc = "should_not", False
    elif side == "subject":
        compact = {"verb": verb, "dir": d, "exc": exc, "subs": [("regex", rx1)], "objs": [other_o], "anything": False}
        expansion = dict(compact, subs=[("named", m) for m in m1])
        unmatched = not m1
        nmatch = len(m1)
    elif side == "object":
        compact = {"verb": verb, "dir": d, "exc": exc, "subs": [other_s], "objs": [("regex", rx2)], "anything": False}
        expansion = dict(compact, objs=[("named", m) for m in m2])
        unmatched = not m2
        nmatch = len(m2)
    else:
        compact = {"verb": verb, "dir": d, "exc": exc, "subs": [("regex", rx1)], "objs": [("regex", rx2)], "anything": False}
        expansion = dict(compact, subs=[("named", m) for m in m1], objs=[("named", m) for m in m2])
        unmatched = not m1 or not m2
        nmatch = min(len(m1), len(m2))
    poison = forced[8] if forced and len(forced) > 8 else (not forced and rnd.random() < 0.2)
    case = {"kind": "regex", "mods": mods, "imps": imps, "implied": _IMPLIED[0], "forced": [verb, d, exc, side, rx1, rx2, other_s, other_o, poison]}
    HUB.case = case
    if poison:
        # the architecture is shared (a session fixture): an earlier rule on it named the same pattern in a batch next
        # to a broken regular expression and raised half-way through - whatever it raised, this rule is another rule
        from pytestarch import Rule

        for pats in ([rx1, "(unclosed"], ["[z-a]", rx2]):
            try:
                Rule().modules_that().have_name_matching(pats).should().import_modules_that().have_name_matching(pats).assert_applies(ev)
            except Exception:  # noqa: BLE001
                pass
        acc.count("regex_laws_after_a_rule_with_a_broken_regex_on_the_same_architecture")
    oc, msg, et = outcome(compact, ev, acc)
    if not forced and rnd.random() < 0.15:
        # the same rule with its patterns passed by keyword (have_name_matching(regex=...)): the same outcome
        ok, _mk, _ek = outcome(lambda: mk_rule(compact, "keywords"), ev, acc)
        acc.count("regex_rules_with_the_pattern_passed_by_keyword")
        if ok != oc:
            HUB.violation("C11", f"regex-by-keyword-differs:{side}", f"the regex rule gave {oc}, the same rule with its patterns passed by keyword gave {ok}", {"case": case, "compact": compact})
    if not forced and side in ("subject", "object") and rnd.random() < 0.1:
        # the same regular expression twice in one batch: the rule with the pattern once
        from pytestarch import Rule

        def twice():
            rx = rx1 if side == "subject" else rx2
            r = Rule().modules_that()
            r = r.have_name_matching([rx, rx]) if side == "subject" else getattr(r, FILTER_METHOD[other_s[0]])(other_s[1])
            r = getattr(getattr(r, verb)(), IMPORT_METHOD[(d, exc)])()
            return r.have_name_matching([rx, rx]) if side == "object" else getattr(r, FILTER_METHOD[other_o[0]])(other_o[1])

        o2x, _m2x, _e2x = outcome(twice, ev, acc)
        acc.count("batches_naming_the_same_pattern_twice")
        if o2x != oc:
            HUB.violation("C11", f"regex-named-twice-differs:{side}", f"the rule with one regex gave {oc}, with the same regex twice in the batch {o2x}", {"case": case, "compact": compact})
    acc.hist("regex_kind", f"{k1 if side != 'object' else k2}:{side}")
    if unmatched:
        acc.count("unmatched_regex_cases")
        acc.hist("unmatched_exception", et or oc)
        if oc in ("pass", "fail"):
            HUB.violation("C11", "unmatched-regex-verdict", f"regex matching no module produced the verdict '{oc}' instead of a no-match error", {"case": case, "compact": compact})
        return
    oe, msge, ete = outcome(expansion, ev, acc)
    acc.count("law_regex_pairs")
    if oc != oe:
        HUB.violation("C11", f"regex-vs-expansion:{side}:{rrule.shape(compact)}", f"regex rule gave {oc}, its named expansion gave {oe}", {"case": case, "compact": compact, "expansion": expansion, "msg_compact": msg, "msg_expansion": msge})
    elif oc == "fail" and set(msg.split("\n")) != set(msge.split("\n")):
        acc.count("message_diffs_regex")
    if imps and oc in ("pass", "fail") and nmatch >= 2:
        acc.nontrivial({"m": mods, "i": imps, "c": compact})


def law_partial(rnd, ev, mods, imps, acc, forced=None):
    from pytestarch import Rule

    names = [m for m in mods if m != "r"]
    m = rnd.choice(names)
    cased = [x for x in names if x.rsplit(".", 1)[-1].lower() != x.rsplit(".", 1)[-1]]
    if cased and rnd.random() < 0.3:
        m = rnd.choice(cased)  # names with upper-case letters (partial names are case-sensitive)
    shape = rnd.choice(["text", "*text", "text*", "*text*"])
    frag = m if shape == "text" else m[rnd.randint(0, len(m) - 1) :] if shape == "*text" else m[: rnd.randint(1, len(m))] if shape == "text*" else m[rnd.randint(0, len(m) // 2) : rnd.randint(len(m) // 2 + 1, len(m))]
    if rnd.random() < 0.15:
        frag = frag.swapcase()  # the same text in the other case: matches other modules, or nothing at all
        acc.count("partial_names_in_other_case")
    pat = {"text": frag, "*text": "*" + frag, "text*": frag + "*", "*text*": "*" + frag + "*"}[shape]
    verb, d, exc = _verb_dir(rnd)
    other = _other(rnd, mods, "named")
    side = rnd.choice(["subject", "object"])
    if forced:
        pat, verb, d, exc, other, side = forced
        other = tuple(other)
    case = {"kind": "partial", "mods": mods, "imps": imps, "implied": _IMPLIED[0], "forced": [pat, verb, d, exc, other, side]}
    HUB.case = case
    rx = rglob.to_regex(pat)
    matched = [x for x in mods if rglob.matches(pat, x)]

    def mk(use_partial):
        r = Rule().modules_that()
        if side == "subject":
            r = r.have_name_containing(pat) if use_partial else r.have_name_matching(rx)
        else:
            r = r.are_named(other[1])
        r = getattr(getattr(r, verb)(), IMPORT_METHOD[(d, exc)])()
        if side == "object":
            return r.have_name_containing(pat) if use_partial else r.have_name_matching(rx)
        return r.are_named(other[1])

    o1, m1, e1 = outcome(lambda: mk(True), ev, acc)
    o2, m2, e2 = outcome(lambda: mk(False), ev, acc)
    acc.count("law_partial_pairs")
    acc.hist("partial_shape", shape)
    if not matched:
        if o1 in ("pass", "fail"):
            HUB.violation("C11", "unmatched-partial-verdict", f"partial name matching nothing produced the verdict '{o1}'", {"case": case})
        return
    if o1 != o2:
        HUB.violation("C11", f"partial-vs-regex:{shape}", f"have_name_containing({pat!r}) gave {o1}, have_name_matching({rx!r}) gave {o2}", {"case": case, "matched_by_glob_semantics": matched})
    if imps and o1 in ("pass", "fail") and len(matched) >= 2:
        acc.nontrivial({"m": mods, "i": imps, "p": pat, "v": [verb, d, exc, side]})


def law_partial_list(rnd, ev, mods, imps, acc, forced=None):
    """have_name_containing([p1, p2]): equals the union of the matches; if one of the patterns matches
    nothing the rule must raise the no-match error (never a verdict)."""
    from pytestarch import Rule

    names = [m for m in mods if m != "r"]
    a, b = rnd.choice(names), rnd.choice(names)
    nothing = rnd.random() < 0.5
    p1 = "*" + a.rsplit(".", 1)[-1]
    p2 = "*no_such_module_zz" if nothing else b + "*"
    if not nothing and rnd.random() < 0.15:
        p2 = p1  # the same partial name twice in one batch: the batch of one
        acc.count("batches_naming_the_same_pattern_twice")
    verb, d, exc = _verb_dir(rnd)
    other = _other(rnd, mods, "named")
    side = rnd.choice(["subject", "object"])
    if forced:
        p1, p2, verb, d, exc, other, side = forced
        other = tuple(other)
    case = {"kind": "partial_list", "mods": mods, "imps": imps, "implied": _IMPLIED[0], "forced": [p1, p2, verb, d, exc, other, side]}
    HUB.case = case
    m1 = [x for x in mods if rglob.matches(p1, x)]
    m2 = [x for x in mods if rglob.matches(p2, x)]

    def mk(kind):
        r = Rule().modules_that()
        filt = (lambda r: r.have_name_containing([p1, p2])) if kind == "partial" else (lambda r: r.are_named(sorted(set(m1 + m2))))
        r = filt(r) if side == "subject" else r.are_named(other[1])
        r = getattr(getattr(r, verb)(), IMPORT_METHOD[(d, exc)])()
        return filt(r) if side == "object" else r.are_named(other[1])

    o1, _m, e1 = outcome(lambda: mk("partial"), ev, acc)
    acc.count("law_partial_list_instances")
    if not m1 or not m2:
        acc.count("partial_list_with_unmatched_member")
        if o1 in ("pass", "fail"):
            HUB.violation("C11", "unmatched-partial-in-list-verdict", f"have_name_containing([{p1!r}, {p2!r}]): one pattern matches nothing but the rule produced the verdict '{o1}'", {"case": case})
        return
    o2, _m2, e2 = outcome(lambda: mk("named"), ev, acc)
    if o1 != o2:
        HUB.violation("C11", "partial-list-vs-expansion", f"have_name_containing([{p1!r}, {p2!r}]) gave {o1}, naming the matched modules gave {o2}", {"case": case, "matched": sorted(set(m1 + m2))})
    if imps:
        acc.nontrivial({"m": mods, "i": imps, "pl": case["forced"]})


def law_regex_reused_object(rnd, ev, mods, imps, acc, forced=None):
    """A regex rule is defined by its regex, not by the architecture it happened to see first: the same
    rule object applied to a second architecture must behave like the named expansion computed there."""
    from ..drive import random_imports as _ri

    k, rx = regexes_for(rnd, mods)
    verb, d, exc = _verb_dir(rnd)
    other = _other(rnd, mods, "named")
    drop = rnd.choice([m for m in mods if m != "r" and m != other[1]] or [None])
    if forced:
        rx, verb, d, exc, other, drop = forced
        other = tuple(other)
    if drop is None:
        return
    mods2 = [m for m in mods if not (m == drop or m.startswith(drop + "."))]
    imps2 = [(a, b) for a, b in imps if a in mods2 and b in mods2]
    if other[1] not in mods2:
        return
    case = {"kind": "regex_reused", "mods": mods, "imps": imps, "implied": _IMPLIED[0], "forced": [rx, verb, d, exc, other, drop]}
    HUB.case = case
    ev2 = build(mods2, imps2)
    compact = {"verb": verb, "dir": d, "exc": exc, "subs": [("regex", rx)], "objs": [other], "anything": False}
    rule = mk_rule(compact)
    first = outcome(rule, ev, acc)[0]
    second = outcome(rule, ev2, acc)[0]  # the SAME object on another architecture
    m2 = sorted(m for m in mods2 if re.match(rx, m))
    acc.count("law_regex_reused_object")
    if not m2:
        if second in ("pass", "fail"):
            HUB.violation("C11", "unmatched-regex-verdict:reused-rule-object", f"regex matches nothing in the second architecture but the re-used rule gave '{second}'", {"case": case})
        return
    fresh = outcome(dict(compact, subs=[("named", m) for m in m2]), ev2, acc)[0]
    if second != fresh:
        HUB.violation("C11", "regex-vs-expansion:reused-rule-object", f"rule object first applied to another architecture gave {second}; the expansion over this architecture's modules gives {fresh}", {"case": case, "first": first, "matches_here": m2})
    if imps2 and len(m2) >= 1:
        acc.nontrivial({"m": mods, "rr": case["forced"]})


def law_batch_subjects(rnd, ev, mods, imps, acc, forced=None):
    names = [m for m in mods if m != "r"]
    verb, d, exc = _verb_dir(rnd)
    kind = rnd.choice(["named", "named", "sub"])
    subs = rnd.sample(names, min(len(names), rnd.randint(2, 3)))
    okind = rnd.choice(["named", "named", "sub"])
    objs = rnd.sample(names, min(len(names), rnd.randint(1, 3)))
    if rnd.random() < 0.15:
        # the SAME batch on both sides (equal lists in the same order), a module next to one of its descendants in it
        nested = [(a, b) for a in names for b in names if b.startswith(a + ".")]
        if nested:
            pair = list(rnd.choice(nested))
            rest = [m for m in names if m not in pair]
            subs = pair + (rnd.sample(rest, 1) if rest and rnd.random() < 0.5 else [])
            rnd.shuffle(subs)
            objs, okind = list(subs), kind
            acc.count("batches_with_the_same_nested_list_on_both_sides")
    if forced:
        verb, d, exc, kind, subs, okind, objs = forced
    case = {"kind": "batch_subjects", "mods": mods, "imps": imps, "implied": _IMPLIED[0], "forced": [verb, d, exc, kind, subs, okind, objs]}
    HUB.case = case
    base = {"verb": verb, "dir": d, "exc": exc, "objs": [(okind, o) for o in objs], "anything": False}
    ob, _, eb = outcome(dict(base, subs=[(kind, s) for s in subs]), ev, acc)
    singles = [outcome(dict(base, subs=[(kind, s)]), ev, acc)[0] for s in subs]
    acc.count("law_batch_subject_instances")
    if any(o.startswith("error") or o == "error" for o in singles + [ob]):
        acc.hist("batch_errors", f"{ob}/{singles}")
        if ob != "error" and "error" not in singles:
            return
        if (ob == "error") != ("error" in singles):
            HUB.violation("C11", "batch-subjects-error-mismatch", f"batch gave {ob}({eb}) but members gave {singles}", {"case": case})
        return
    conj = "pass" if all(o == "pass" for o in singles) else "fail"
    if ob != conj:
        HUB.violation("C11", f"batch-subjects:{rrule.shape(base)}", f"multi-subject rule gave {ob}, conjunction of its single-subject rules gives {conj} ({singles})", {"case": case})
    # the same batch handed over in other containers (tuple, one-shot iterator, generator): if the rule gives a verdict
    # at all, it is the verdict of the batch
    from pytestarch import Rule

    from ..drive import FILTER_METHOD

    for form, mk in (("tuple", lambda x: tuple(x)), ("iterator", lambda x: iter(list(x))), ("generator", lambda x: (n for n in x))):
        try:
            r = getattr(Rule().modules_that(), FILTER_METHOD[kind])(mk(subs))
            r = getattr(getattr(r, verb)(), IMPORT_METHOD[(d, exc)])()
            r = getattr(r, FILTER_METHOD[okind])(mk(objs))
        except Exception as e:  # noqa: BLE001  (rejected container: no rule, no claim)
            acc.hist("batch_container_rejected", f"{form}:{type(e).__name__}")
            continue
        o2 = outcome(r, ev, acc)[0]
        acc.count("batches_in_another_container")
        if o2 in ("pass", "fail") and o2 != ob:
            HUB.violation("C11", f"batch-as-{form}-differs-from-list", f"the batch given as a {form} gave {o2}, given as a list {ob}", {"case": case})
    if imps:
        acc.nontrivial({"m": mods, "i": imps, "b": case["forced"]})


def law_batch_objects(rnd, ev, mods, imps, acc, forced=None):
    names = [m for m in mods if m != "r"]
    verb = rnd.choice(["should", "should_not"])
    d = rnd.choice(rrule.DIRS)
    kind = rnd.choice(["named", "named", "sub"])
    s = rnd.choice(names)
    okind = rnd.choice(["named", "named", "sub"])
    objs = rnd.sample(names, min(len(names), rnd.randint(2, 3)))
    if forced:
        verb, d, kind, s, okind, objs = forced
    case = {"kind": "batch_objects", "mods": mods, "imps": imps, "implied": _IMPLIED[0], "forced": [verb, d, kind, s, okind, objs]}
    HUB.case = case
    base = {"verb": verb, "dir": d, "exc": False, "subs": [(kind, s)], "anything": False}
    ob, _, eb = outcome(dict(base, objs=[(okind, o) for o in objs]), ev, acc)
    singles = [outcome(dict(base, objs=[(okind, o)]), ev, acc)[0] for o in objs]
    acc.count("law_batch_object_instances")
    if ob == "error" or "error" in singles:
        if (ob == "error") != ("error" in singles):
            HUB.violation("C11", "batch-objects-error-mismatch", f"batch gave {ob}({eb}) but members gave {singles}", {"case": case})
        return
    conj = "pass" if all(o == "pass" for o in singles) else "fail"
    if ob != conj:
        HUB.violation("C11", f"batch-objects:{verb}:{d}", f"multi-object rule gave {ob}, conjunction over objects gives {conj} ({singles})", {"case": case})
    if imps:
        acc.nontrivial({"m": mods, "i": imps, "b": case["forced"]})


def replay(case, acc):
    rnd = random.Random(0)
    (None if os.environ.get("PTA_WARNINGS_ARE_ERRORS") else warnings.simplefilter("ignore"))
    mods, imps = case["mods"], [tuple(i) for i in case["imps"]]
    pre = case.get("implied")
    _IMPLIED[0] = pre
    ev = build([m for m in mods if (m + ".").startswith(pre)] if pre else mods, imps)
    f = case["forced"]
    {"regex": law_regex, "partial": law_partial, "partial_list": law_partial_list, "regex_reused": law_regex_reused_object, "batch_subjects": law_batch_subjects, "batch_objects": law_batch_objects}[case["kind"]](rnd, ev, mods, imps, acc, forced=f)


def floors(acc, tier):
    why = []
    if acc.counters["architectures_with_implied_top_packages"] < 100:
        why.append(f"only {acc.counters['architectures_with_implied_top_packages']} architectures with implied top packages")
    if acc.counters["architectures_with_100_or_more_siblings"] < 10:
        why.append("too few architectures with 100+ sibling modules")
    for c, n in (("law_regex_pairs", 2000), ("law_partial_pairs", 500), ("law_batch_subject_instances", 500), ("law_batch_object_instances", 500), ("unmatched_regex_cases", 50), ("partial_list_with_unmatched_member", 100), ("batches_with_the_same_nested_list_on_both_sides", 50)):
        if acc.counters[c] < n:
            why.append(f"{c}: only {acc.counters[c]}")
    return why
