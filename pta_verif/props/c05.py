"""C05 - layer-rule verdicts follow the documented semantics, one unit per layer.

Deciding step: online post-condition on LayerRule.assert_applies (monitors_more._judge_layer_rule)
comparing the outcome with R-LAYER; any non-AssertionError exception on a well-formed rule is a violation.
"""
from __future__ import annotations

import random
import re

from ..drive import build, random_imports, run
from ..monitors import HUB
from ..refmodel import layers as rlayer
from ..refmodel.names import is_ancestor, related

ID = "C05"
LEVEL = "exploration"
TECHNIQUE = "online reference-model post-condition (R-LAYER) on LayerRule.assert_applies; seeded random partitions into named/regex/mixed layers with forced directed situations"
LEVEL_TEXT = (
    "Held on every observed layer-rule evaluation: outcome equals R-LAYER on the evaluable's import relation, for all 12 access shapes and the "
    "two any-layer aliases, 1-2 object layers, layers given by name lists, by regex or mixed, with modules in no layer and layers the rule does "
    "not mention. The three situations the property singles out (intra-layer import as the only 'other' import, unmentioned regex layer, mixed "
    "regex/named object layers in both orders) are forced and counted."
)
LEVEL_NOTE = "Trusts R-LAYER (refmodel/layers.py) and the raw graph; strict only when all layer modules are pairwise unrelated and every layer matches at least one module."
LEVEL_TEXT += ' Layers may list a module next to one of its own ancestors (forced: first child listed, a later-sorting sibling takes part in the imports). Additionally an end-to-end soak: random projects on disk are scanned with the real scanner (externals kept or dropped, external exclusions, level limits, module_path below the root) and module rules, layer rules, diagram rules and plots are interleaved on those architectures with every monitor armed.'
LEVEL_TEXT += ' Module names include a hyphenated and a non-ASCII one; an unmentioned regex layer may match nothing.'
RULE = (
    "an evaluation = one LayerRule.assert_applies; non-trivial = judged by the strict R-LAYER oracle on a non-empty import relation; distinct = "
    "distinct (graph, layer definition, rule) triples"
)
ASSUMPTIONS = ["regex layers are anchored alternations of module names so that the model's re.match expansion is unambiguous"]
SHARD_TIMEOUT = {"quick": 900, "thorough": 3000}

TOP = ["r.a", "r.b", "r.c", "r.d", "r.e", "r.f", "r.ab", "r.a_b", "r.a-b", "r.größe"]  # "-" sorts below ".", "ö" above every ASCII character
SUBS = ["r.a.x", "r.a.y", "r.b.x", "r.b.y", "r.c.z", "r.c.a", "r.f.q", "r.f.q.w", "r.ab.x", "r.d.k", "r.d.m"]
ACC = {
    ("import", False): "access_layers_that",
    ("be", False): "be_accessed_by_layers_that",
    ("import", True): "access_layers_except_layers_that",
    ("be", True): "be_accessed_by_layers_except_layers_that",
}


def plan(tier, seed):
    return [{"kind": "random", "n": 2200 if tier == "quick" else 60000} for _ in range(10 if tier == "quick" else 16)]


def make_arch(layers, kinds, str_form):
    from pytestarch import LayeredArchitecture

    arch = LayeredArchitecture()
    for name, ms in layers.items():
        arch = arch.layer(name)
        if kinds[name] == "named":
            arch = arch.containing_modules(ms[0] if len(ms) == 1 and str_form else list(ms))
        else:
            arch = arch.have_modules_with_names_matching("^(" + "|".join(re.escape(m) for m in ms) + ")$")
    return arch


def make_rule(arch, cfg, str_form):
    from pytestarch import LayerRule

    if cfg.get("style") in ("statements", "restarted"):
        # the rule written as statements on ONE name, whatever the builder methods return being ignored; 'restarted': the
        # same object first carried another rule (all of it) and is started over with layers_that()
        lr = LayerRule()
        lr.based_on(arch)
        if cfg["style"] == "restarted":
            lr.layers_that()
            lr.are_named(cfg["objects"][0] if cfg.get("objects") else cfg["subject"])
            lr.should_not()
            lr.access_any_layer()
            HUB.acc.count("layer_rule_objects_started_over_with_layers_that")
        lr.layers_that()
        lr.are_named(cfg["subject"])
        getattr(lr, cfg["verb"])()
        if cfg.get("anything"):
            (lr.access_any_layer if cfg["dir"] == "import" else lr.be_accessed_by_any_layer)()
            return lr
        getattr(lr, ACC[(cfg["dir"], cfg["exc"])])()
        objs = cfg["objects"]
        lr.are_named(objs[0] if len(objs) == 1 and str_form else list(objs))
        HUB.acc.count("layer_rules_written_as_statements_on_one_name")
        return lr
    r = LayerRule().based_on(arch).layers_that().are_named(cfg["subject"])
    r = getattr(r, cfg["verb"])()
    if cfg.get("anything"):
        return r.access_any_layer() if cfg["dir"] == "import" else r.be_accessed_by_any_layer()
    r = getattr(r, ACC[(cfg["dir"], cfg["exc"])])()
    objs = cfg["objects"]
    if cfg.get("stumble"):
        # the author first names a layer that is not defined (a typo), next to a defined one that is NOT part of the rule;
        # the call raises, the typo is corrected and the same rule object is finished: the rejected call left nothing behind
        try:
            r.are_named([cfg["stumble"], "no_such_layer_zz"])
        except Exception:  # noqa: BLE001  (whatever it raises)
            pass
        HUB.acc.count("layer_rules_finished_after_a_rejected_are_named")
    return r.are_named(objs[0] if len(objs) == 1 and str_form else list(objs))


def _construction(case):
    """Generator: the fluent calls that build the case's architecture and rule, one per step; returns the rule."""
    from pytestarch import LayeredArchitecture, LayerRule

    layers, kinds, str_form, cfg = case["layers"], case["kinds"], case["str_form"], case["cfg"]
    # head_after = k: the rule's head (LayerRule().based_on(arch).layers_that()) is written once k layers are defined, the
    # remaining layers are added to the architecture afterwards (rules started in the same top-down block that declares
    # the layers); scribble: the lists handed to containing_modules are the caller's and are edited afterwards
    head_after, scribble = case.get("head_after"), case.get("scribble")
    arch = LayeredArchitecture()
    yield
    r = None
    handed = []
    for k, (name, ms) in enumerate(layers.items()):
        if head_after is not None and k == head_after:
            r = LayerRule().based_on(arch).layers_that()
            yield
        arch = arch.layer(name)
        yield
        if kinds[name] == "named":
            arg = ms[0] if len(ms) == 1 and str_form else list(ms)
            arch = arch.containing_modules(arg)
            if isinstance(arg, list):
                handed.append(arg)
        else:
            arch = arch.have_modules_with_names_matching("^(" + "|".join(re.escape(m) for m in ms) + ")$")
        yield
    if scribble:
        for n_, lst in enumerate(handed):
            if (scribble + n_) % 3 == 0:
                lst.clear()
            elif (scribble + n_) % 3 == 1:
                lst.append("r.zz_not_listed")
            else:
                lst[0] = "r.zz_replaced"
    if r is None:
        r = LayerRule()
        yield
        r = r.based_on(arch)
        yield
        r = r.layers_that()
        yield
    r = r.are_named(cfg["subject"])
    yield
    r = getattr(r, cfg["verb"])()
    yield
    if cfg.get("anything"):
        return r.access_any_layer() if cfg["dir"] == "import" else r.be_accessed_by_any_layer()
    r = getattr(r, ACC[(cfg["dir"], cfg["exc"])])()
    yield
    objs = cfg["objects"]
    if cfg.get("stumble"):
        try:
            r.are_named([cfg["stumble"], "no_such_layer_zz"])
        except Exception:  # noqa: BLE001
            pass
        HUB.acc.count("layer_rules_finished_after_a_rejected_are_named")
        yield
    return r.are_named(objs[0] if len(objs) == 1 and str_form else list(objs))


def interleaved_cases(cases, schedule, rnd, acc):
    """Several layered architectures and layer rules under construction at the same time (their builder calls interleaved),
    then applied: every object must carry exactly what was said to IT.  schedule: list of case indices (None = draw it)."""
    gens = [_construction(c) for c in cases]
    rules = [None] * len(cases)
    live = list(range(len(cases)))
    drawn = []
    k = 0
    try:
        while live:
            i = schedule[k] if schedule is not None else rnd.choice(live)
            k += 1
            drawn.append(i)
            try:
                next(gens[i])
            except StopIteration as stop:
                rules[i] = stop.value
                live.remove(i)
    except Exception as e:  # noqa: BLE001
        HUB.case = {"kind": "layer-interleaved", "cases": cases, "schedule": drawn}
        HUB.violation("C05", f"builder-exception:{type(e).__name__}:interleaved", f"well-formed layer definitions / rules rejected while several were under construction: {e}", {"schedule": drawn})
        return
    for i, case in enumerate(cases):
        ev = build(case["mods"], [tuple(x) for x in case["imps"]])
        HUB.case = {"kind": "layer-interleaved", "cases": cases, "schedule": drawn, "applied": i}
        run(rules[i], ev)
        acc.evaluated()
    acc.count("layer_rules_built_interleaved", len(cases))


def one_case(case, acc):
    mods, imps = case["mods"], [tuple(i) for i in case["imps"]]
    ev = build(mods, imps)
    HUB.case = case
    before = acc.counters["c05_judged"]
    try:
        arch = make_arch(case["layers"], case["kinds"], case["str_form"])
        rule = make_rule(arch, case["cfg"], case["str_form"])
    except Exception as e:  # noqa: BLE001
        HUB.violation("C05", f"builder-exception:{type(e).__name__}", f"well-formed layer definition / rule rejected: {e}", {"case": case})
        return
    run(rule, ev)
    acc.evaluated()
    if imps and acc.counters["c05_judged"] > before:
        acc.nontrivial(case)


def many_imports_inside_the_subject_layer(rnd, acc):
    """Magnitudes: 100-300 imports that stay inside the subject layer (they never count) around the few that leave it."""
    n = rnd.choice([99, 100, 101, 150, 300])
    mods = ["r", "r.ui", "r.ui.main", "r.widgets", "r.model", "r.zzz", "r.aaa"] + [f"r.widgets.w{i:03d}" for i in range(n)]
    imps = [("r.ui.main", f"r.widgets.w{i:03d}") for i in range(n)]
    extra = rnd.sample([("r.ui.main", "r.model"), ("r.ui.main", "r.zzz"), ("r.ui.main", "r.aaa"), ("r.model", "r.ui.main"), ("r.zzz", "r.widgets.w001"), ("r.widgets.w000", "r.model")], rnd.randint(0, 3))
    imps = sorted(set(imps + extra))
    layers = {"ui": ["r.ui", "r.widgets"], "model": ["r.model"]}
    kinds = {"ui": "named", "model": "named"}
    for verb in ("should", "should_only", "should_not"):
        for d in ("import", "be"):
            for exc in (False, True):
                cfg = {"verb": verb, "dir": d, "exc": exc, "anything": False, "subject": "ui", "objects": ["model"]}
                one_case({"kind": "layer", "mods": mods, "imps": imps, "layers": layers, "kinds": kinds, "cfg": cfg, "str_form": False}, acc)
    acc.count("layers_with_100_or_more_internal_imports")


def run_shard(spec, acc):
    rnd = random.Random(spec["seed"])
    prev_case = prev2 = None
    for i in range(spec["n"]):
        if i % 400 == 7:
            many_imports_inside_the_subject_layer(rnd, acc)
        if i % 25 == 0:
            # one LayeredArchitecture / LayerRule object applied to two architectures with different module sets (a regex
            # layer matches a module only one of them has): every application is judged by R-LAYER on its own graph
            from . import c15

            c15.layer_rule_two_architectures(rnd, acc)
            acc.count("layer_rule_objects_applied_to_two_architectures")
        mods = ["r"] + TOP + rnd.sample(SUBS, rnd.randint(2, len(SUBS)))
        mods = [m for m in mods if m == "r" or m in TOP or m.rsplit(".", 1)[0] in mods or m.rsplit(".", 1)[0] in SUBS]
        mods = sorted(set(mods) | {m.rsplit(".", 1)[0] for m in mods if m.count(".") > 1})
        pool = TOP[:]
        rnd.shuffle(pool)
        nl = rnd.randint(2, 4)
        layers = {}
        for j in range(nl):
            k = rnd.randint(1, 2)
            ms = [pool.pop() for _ in range(k) if pool]
            if ms:
                layers[f"L{j}"] = ms
        if len(layers) < 2:
            continue
        for name in list(layers):
            if rnd.random() < 0.2:
                # redundant but legal: a module listed next to one of its own ancestors inside the same layer
                below = [m for m in mods if any(is_ancestor(x, m) for x in layers[name])]
                if below:
                    layers[name] = layers[name] + [rnd.choice(below)]
                    if rnd.random() < 0.5:
                        layers[name].reverse()
                    acc.count("layers_with_nested_lists")
        kinds = {name: rnd.choice(["named", "named", "regex"]) for name in layers}
        names = list(layers)
        rnd.shuffle(names)
        subject = names[0]
        nobj = rnd.randint(1, min(2, len(names) - 1))
        objects = names[1 : 1 + nobj]
        verb, d, exc = rnd.choice(["should", "should_only", "should_not"]), rnd.choice(["import", "be"]), rnd.random() < 0.5
        anything = rnd.random() < 0.1
        if anything:
            verb, exc, objects = "should_not", False, []
        elif rnd.random() < 0.06:
            # the subject layer is ALSO one of the object layers ("A should access A and B"): a layer is a unit like any other
            objects = objects + [subject]
            rnd.shuffle(objects)
            acc.count("layer_rules_whose_subject_layer_is_also_an_object_layer")
        forced = rnd.random()
        in_layer = lambda L: [m for m in mods if any(m == x or is_ancestor(x, m) for x in layers[L])]  # noqa: E731
        if forced < 0.12 and len(in_layer(subject)) >= 2:
            # an intra-layer import as the ONLY 'other' import
            a, b = rnd.sample(in_layer(subject), 2)
            if not (is_ancestor(a, b) and b.count(".") == a.count(".") + 1):
                imps = [(a, b)]
                exc = True
                anything = False
                if not objects:
                    objects = names[1:2]
                acc.count("forced_intra_layer_only")
            else:
                imps = random_imports(rnd, mods, k_max=8)
        elif forced < 0.24 and len(names) > 1 + len(objects):
            kinds[names[-1]] = "regex"  # a regex-defined layer the rule does not mention
            imps = random_imports(rnd, mods, k_max=8)
            acc.count("forced_unmentioned_regex_layer")
        elif forced < 0.36 and len(objects) == 2:
            kinds[objects[0]], kinds[objects[1]] = ("regex", "named") if rnd.random() < 0.5 else ("named", "regex")
            imps = random_imports(rnd, mods, k_max=8)
            acc.count("forced_mixed_object_layers")
        else:
            imps = random_imports(rnd, mods, k_max=8)
        if rnd.random() < 0.15:
            # a layer listing its root next to the FIRST of several children, with imports that involve a later child
            for name in names:
                root_ = layers[name][0] if not any(is_ancestor(x, layers[name][0]) for x in layers[name]) else min(layers[name], key=len)
                kids = sorted(m for m in mods if m.rsplit(".", 1)[0] == root_)
                if len(kids) >= 2:
                    layers[name] = [root_, kids[0]] if rnd.random() < 0.5 else [kids[0], root_]
                    outside = [m for m in mods if m != "r" and not related(m, root_)]
                    extra = [(kids[-1], rnd.choice(outside)), (rnd.choice(outside), kids[-1]), (kids[-1], kids[0])]
                    imps = sorted(set(imps) | set(rnd.sample(extra, rnd.randint(1, 3))))
                    acc.count("forced_nested_list_with_later_sibling")
                    break
        if rnd.random() < 0.3:
            # layer NAMES are free text: prefixes of each other, case twins, dots, a module's name, the word "layer"
            pool = ["L1", "L10", "L100", "data", "database", "Data", "a.b", "r.a", "layer", "x y", "web-ui", "größe", "layer one", "Layer one", "my layer x"]
            new_names = dict(zip(list(layers), rnd.sample(pool, len(layers))))
            layers = {new_names[k]: v for k, v in layers.items()}
            kinds = {new_names[k]: v for k, v in kinds.items()}
            names = [new_names[n] for n in names]
            subject = new_names[subject]
            objects = [new_names[o] for o in objects]
            acc.count("adversarial_layer_names")
        if rnd.random() < 0.06:
            # a layer may be called anything, the empty string included
            old_name = rnd.choice(names)
            layers = {("" if k == old_name else k): v for k, v in layers.items()}
            kinds = {("" if k == old_name else k): v for k, v in kinds.items()}
            names = ["" if n == old_name else n for n in names]
            subject = "" if subject == old_name else subject
            objects = ["" if o == old_name else o for o in objects]
            acc.count("layers_named_with_the_empty_string")
        if rnd.random() < 0.1:
            # a regex-defined layer that the rule does not mention and that matches no module of this architecture
            layers["LZ"] = ["r.no_such_module_zz"]
            kinds["LZ"] = "regex"
            acc.count("forced_unmentioned_regex_layer_without_match")
        for name in layers:
            acc.hist("layer_kind", kinds[name])
        cfg = {"verb": verb, "dir": d, "exc": exc, "anything": anything, "subject": subject, "objects": objects}
        spare = [n for n in layers if n != subject and n not in objects] if not anything else []
        if spare and rnd.random() < 0.15:
            cfg["stumble"] = rnd.choice(spare)
        elif rnd.random() < 0.12:
            cfg["style"] = rnd.choice(["statements", "restarted"])
        case = {"kind": "layer", "mods": mods, "imps": imps, "layers": layers, "kinds": kinds, "cfg": cfg, "str_form": rnd.random() < 0.5}
        one_case(case, acc)
        if i % 6 == 1:
            # the same case built the other ways: rule head written before all layers are declared / lists edited afterwards
            variant = dict(case)
            if rnd.random() < 0.5:
                variant["head_after"] = rnd.randint(0, len(layers) - 1)
                acc.count("layer_rule_heads_written_before_all_layers_were_declared")
            else:
                variant["scribble"] = rnd.randint(1, 3)
                variant["str_form"] = False
                acc.count("layer_lists_edited_after_the_call")
            interleaved_cases([variant], None, rnd, acc)
        if i % 10 == 3 and prev_case is not None:
            interleaved_cases([prev_case, case] + ([prev2] if prev2 is not None and rnd.random() < 0.4 else []), None, rnd, acc)
        prev2, prev_case = prev_case, case
        if i % 397 == 0:
            acc.sample(case)


def replay(case, acc):
    if case.get("kind") == "layer-two-architectures":
        from . import c15

        return c15.two_architectures_case(case, acc)
    if case.get("kind") == "layer-interleaved":
        return interleaved_cases(case["cases"], case["schedule"], None, acc)
    one_case(case, acc)


SHAPES = [f"{v}/{d}/{e}" for v in ("should", "should_only", "should_not") for d in ("import", "be") for e in ("plain", "except")] + [
    "should_not/import/any_layer",
    "should_not/be/any_layer",
]


def floors(acc, tier):
    why = []
    h = acc.hists.get("c05_shape_outcome", {})
    for s in SHAPES:
        for o in ("pass", "fail"):
            if h.get(f"{s}:{o}", 0) == 0:
                why.append(f"shape {s} never observed with outcome {o}")
    for c in ("forced_intra_layer_only", "forced_unmentioned_regex_layer", "forced_mixed_object_layers", "forced_nested_list_with_later_sibling", "forced_unmentioned_regex_layer_without_match", "adversarial_layer_names"):
        if acc.counters[c] < 50:
            why.append(f"{c}: only {acc.counters[c]}")
    if acc.counters["layers_with_100_or_more_internal_imports"] < 5:
        why.append("too few layers with 100+ internal imports")
    if acc.counters["layer_rule_objects_applied_to_two_architectures"] < 20:
        why.append("too few layer rule objects applied to two different architectures")
    for c in ("layer_rule_heads_written_before_all_layers_were_declared", "layer_lists_edited_after_the_call"):
        if acc.counters[c] < 100:
            why.append(f"{c}: only {acc.counters[c]}")
    if acc.counters["layer_rules_built_interleaved"] < 200:
        why.append(f"only {acc.counters['layer_rules_built_interleaved']} layer rules built while others were under construction")
    if acc.counters["c05_judged_nested_layer_lists"] < 200:
        why.append(f"only {acc.counters['c05_judged_nested_layer_lists']} evaluations with a module listed next to its ancestor inside one layer")
    if acc.counters["c05_judged"] < 5000:
        why.append(f"only {acc.counters['c05_judged']} evaluations judged")
    return why
