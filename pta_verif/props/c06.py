"""C06 - PlantUML diagrams parse to exactly their components, aliases and arrows.

Deciding step: online post-condition on PumlParser.parse: the result is compared with the
component set and dependor->dependee relation the diagram was generated from (registered per
path by the driver); foreign files are judged by the strict recogniser R-PUML or skipped.
"""
from __future__ import annotations

import itertools
import os
import random
import re

from .. import trees
from ..monitors import HUB
from ..monitors_more import register_puml
from ..refmodel import puml as rpuml

ID = "C06"
LEVEL = "exploration"
TECHNIQUE = "online post-condition on PumlParser.parse against the generating (components, relation) of diagrams rendered in every documented declaration / reference / arrow form and line order"
LEVEL_TEXT = (
    "Held on every observed parse: components and dependor->dependee relation returned by the parser equal those the diagram text was "
    "generated from, over random relations on 2-8 components with every declaration form, reference form (bracketed, bare, alias), arrow form, "
    "all line permutations for small diagrams, dotted module names, noise outside the tags; tag-less files observed to be rejected with PumlParsingError."
)
LEVEL_NOTE = "The generator's rendering of the documented subset is the trusted base (refmodel/puml.py); constructs outside that subset (indentation, names with spaces, 'component n as a', self-arrows) are not generated."
LEVEL_TEXT += ' Diagrams are also saved with CRLF / CR line endings and rewritten at the same path with the same timestamps; component names include non-ASCII identifiers. KNOWN FINDING nonword-identifier-component (see KNOWN_FINDINGS.txt).'
RULE = (
    "an evaluation = one PumlParser.parse call judged by the monitor; non-trivial = diagram with >= 2 arrows or an alias; distinct = distinct diagram texts"
)
ASSUMPTIONS = ["an alias never coincides with the name of another component that an arrow mentions", "one declaration per component"]
SHARD_TIMEOUT = {"quick": 900, "thorough": 3000}

NAMES = ["M_A", "M_B", "M_C", "core", "util", "runtime", "services", "model", "x1", "importer", "component_registry", "components"]
DOTTED = ["src.a", "src.a_b", "src.b.c", "src.core.util", "src.ab", "pkg.mod.sub", "src.m1", "components.core", "component.x", ".".join(f"pkg{i:02d}" for i in range(60)), "src." + "y" * 280]  # the last two: 300-character names
WORDS = ["up", "down", "left", "right", "uses", "Down", "step2", "reads_from", "\u00dcber", "x"]


def plan(tier, seed):
    specs = [{"kind": "random", "n": 2000 if tier == "quick" else 90000} for _ in range(8 if tier == "quick" else 16)]
    specs.append({"kind": "directed"})
    return specs


# legal identifiers: non-ASCII letters, and characters that are identifier characters but no regex word characters
UNICODE_NAMES = ["größe", "данные", "überblick", "Models"]
NONWORD_NAMES = ["ข้อมูล", "a·b", "src.ข้อมูล.x"]


def gen_spec(rnd, dotted=None):
    dotted = rnd.random() < 0.3 if dotted is None else dotted
    pool = DOTTED if dotted else NAMES
    r = rnd.random()
    if r < 0.15:
        pool = pool + UNICODE_NAMES
    elif r < 0.19:
        pool = pool[:4] + NONWORD_NAMES
    n = rnd.randint(2, min(8, len(pool)))
    comps = rnd.sample(pool, n)
    pairs = [(a, b) for a in comps for b in comps if a != b]
    rel = rnd.sample(pairs, rnd.randint(0, min(len(pairs), 7)))
    if rnd.random() < 0.12:
        c = rnd.choice(comps)
        rel.insert(rnd.randint(0, len(rel)), (c, c))  # an arrow from a component to itself is an arrow that is drawn
    if rel and rnd.random() < 0.15:
        # the same arrow drawn twice (possibly in two different spellings): still one dependency
        for _ in range(rnd.randint(1, 2)):
            rel.insert(rnd.randint(0, len(rel)), rnd.choice(rel))
    decl = {}
    for i, c in enumerate(comps):
        form = rnd.choice(rpuml.DECL_FORMS)
        if "." in c and form == "component n" and rnd.random() < 0.5:
            form = "component [n]"
        alias = None
        if " as a" in form:
            # half of the aliases are tokens that other diagrams of the same process use as component names
            free = [x for x in NAMES if x not in comps and x not in {a for _f, a in decl.values() if a}]
            alias = rnd.choice(free) if free and rnd.random() < 0.5 else f"al{i}"
            if "." not in c and rnd.random() < 0.08:
                alias = c  # '[X] as X': pointless but legal, the alias resolves to the component it names
        decl[c] = (form, alias)
    referenced = {x for p in rel for x in p}
    for c in comps:
        if decl[c][0] == "none" and c not in referenced:
            decl[c] = ("[n]", None)  # an unreferenced component must be declared to exist at all
    by_name_only = set()
    if rnd.random() < 0.08:
        # an alias spelled like the name of ANOTHER component - one that is only declared and that no arrow mentions, so
        # nothing is ambiguous; the aliased component itself is referred to by name in this diagram
        xs = [c for c in comps if decl[c][1]]
        ys = [c for c in comps if c not in referenced and re.fullmatch(r"\w+", c)]
        if xs and ys:
            x, y = rnd.choice(xs), rnd.choice(ys)
            if x != y:
                decl[x] = (decl[x][0], y)
                by_name_only.add(x)
    arrow_forms = []
    for a, b in rel:
        fa = rnd.choice(rpuml.REF_FORMS)
        fb = rnd.choice(rpuml.REF_FORMS)
        if a in by_name_only and fa == "alias":
            fa = "[n]"
        if b in by_name_only and fb == "alias":
            fb = "n"
        arrow_forms.append((rnd.choice(rpuml.ARROWS), fa, fb, rnd.choice(WORDS)))
    spec = {"components": comps, "relation": rel, "decl": decl, "arrow_forms": arrow_forms}
    if by_name_only:
        spec["alias_named_like_an_unmentioned_component"] = True
    nlines = sum(1 for c in comps if decl[c][0] != "none") + len(rel)
    order = list(range(nlines))
    rnd.shuffle(order)
    mode = rnd.choice(["decl-first", "shuffled", "arrows-first"])
    if mode == "shuffled":
        spec["order"] = order
    elif mode == "arrows-first":
        nd = nlines - len(rel)
        spec["order"] = list(range(nd, nlines)) + list(range(nd))
    r = rnd.random()
    if r < 0.3:
        spec["noise_before"] = "some text\n[Noise] --> [Other]\ncomponent ghost\n"
    if rnd.random() < 0.3:
        spec["noise_after"] = "\n[After] -> [Tags]\nmore text"
    return spec


_SHARED_PARSER = []


def write_and_parse(spec, acc, case=None, path=None, keep_mtime_of=None):
    """spec["newline"] (optional): line ending the file is saved with.  path / keep_mtime_of: the diagram is written to
    a path that held another diagram before, and the file's timestamps are set back to those of that earlier file
    (a timestamp-preserving copy, a file system with coarse timestamps)."""
    from pytestarch.diagram_extension.diagram_parser import PumlParser

    text = rpuml.render(spec)
    d = os.path.join(trees.scratch_dir(), "puml")
    os.makedirs(d, exist_ok=True)
    keep = path is not None
    path = path or os.path.join(d, f"d{acc.evaluations}.puml")
    nl = spec.get("newline")
    with open(path, "w", newline="") as f:
        f.write(text.replace("\n", nl) if nl else text)
    if keep_mtime_of is not None:
        os.utime(path, ns=keep_mtime_of)
    if nl:
        acc.hist("line_ending", repr(nl))
    comps, rel = rpuml.truth(spec)
    must_reject = not (spec.get("start_tag", True) and spec.get("end_tag", True))
    register_puml(path, comps, rel, must_reject)
    HUB.case = case or {"kind": "diagram", "spec": spec}
    res = None
    if len(spec["relation"]) != len(set(map(tuple, spec["relation"]))):
        acc.count("diagrams_with_an_arrow_drawn_twice")
    # a third of the diagrams are parsed by ONE long-lived parser object (a fixture that keeps its PumlParser)
    if not _SHARED_PARSER:
        _SHARED_PARSER.append(PumlParser())
    parser = _SHARED_PARSER[0] if len(text) % 3 == 0 else PumlParser()
    if parser is _SHARED_PARSER[0]:
        acc.count("diagrams_parsed_by_a_long_lived_parser_object")
    try:
        res = parser.parse(path)
    except Exception:  # noqa: BLE001  (judged by the monitor)
        pass
    acc.evaluated()
    if res is not None and len(text) % 5 == 0:
        # the caller edits the result in place (it is the caller's object), then the same text is parsed again
        try:
            for v in list(getattr(res, "dependencies", {}).values()):
                if isinstance(v, set):
                    v.clear()
            if isinstance(getattr(res, "dependencies", None), dict):
                res.dependencies.clear()
            if isinstance(getattr(res, "all_modules", None), set):
                res.all_modules.clear()
            HUB.case = dict(HUB.case, note="second parse of the same text after the first result was edited in place")
            PumlParser().parse(path)
            acc.evaluated()
            acc.count("reparsed_after_the_result_was_edited")
        except Exception:  # noqa: BLE001
            pass
    if not keep:
        os.unlink(path)
    return text


def account(spec, text, acc):
    for c in spec["components"]:
        acc.hist("decl_form", spec["decl"].get(c, ("none", None))[0])
    for arrow, fa, fb, _w in spec["arrow_forms"]:
        acc.hist("arrow_form", arrow)
        acc.hist("ref_form", fa)
        acc.hist("ref_form", fb)
    aliased = {c for c in spec["components"] if spec["decl"][c][1]}
    by_alias = {a for (a, b), (_, fa, fb, _w) in zip(spec["relation"], spec["arrow_forms"]) if fa == "alias" and a in aliased}
    by_name = {a for (a, b), (_, fa, fb, _w) in zip(spec["relation"], spec["arrow_forms"]) if fa != "alias" and a in aliased}
    if by_alias & by_name:
        acc.count("dependor_by_alias_and_by_name")
    if any("." in c for c in spec["components"]):
        acc.count("dotted_diagrams")
    if spec.get("alias_named_like_an_unmentioned_component"):
        acc.count("alias_named_like_an_unmentioned_component")
    if len(spec["relation"]) >= 2 or aliased:
        acc.nontrivial(text)


def run_shard(spec, acc):
    if spec["kind"] == "directed":
        directed(acc)
        return
    rnd = random.Random(spec["seed"])
    for i in range(spec["n"]):
        s = gen_spec(rnd)
        if rnd.random() < 0.15:
            s["newline"] = rnd.choice(["\r\n", "\r\n", "\r"])  # diagrams saved with Windows / old Mac line endings
        if rnd.random() < 0.08:
            # two different diagrams, one after the other, at the same path with the same timestamps
            same = os.path.join(trees.scratch_dir(), "puml", "same_path.puml")
            os.makedirs(os.path.dirname(same), exist_ok=True)
            first = gen_spec(rnd)
            write_and_parse(first, acc, {"kind": "diagram", "spec": first}, path=same)
            st = os.stat(same)
            text = write_and_parse(s, acc, {"kind": "same-path", "first": first, "spec": s}, path=same, keep_mtime_of=(st.st_atime_ns, st.st_mtime_ns))
            os.unlink(same)
            acc.count("rewritten_at_same_path_with_same_mtime")
        else:
            text = write_and_parse(s, acc)
        account(s, text, acc)
        if i % 211 == 0:
            acc.sample({"text": text, "components": s["components"], "relation": s["relation"]})


def directed(acc):
    # all line permutations of small diagrams
    base = {
        "components": ["Alpha", "Beta", "Gamma"],
        "relation": [("Alpha", "Beta"), ("Alpha", "Gamma"), ("Beta", "Gamma")],
        "decl": {"Alpha": ("[n] as a", "a"), "Beta": ("component n", None), "Gamma": ("none", None)},
        "arrow_forms": [("-->", "alias", "n", "up"), ("<-", "[n]", "[n]", "up"), ("-text->", "n", "[n]", "down")],
    }
    for perm in itertools.permutations(range(5)):
        s = dict(base, order=list(perm))
        text = write_and_parse(s, acc)
        account(s, text, acc)
        acc.count("line_permutations")
    # empty diagram, isolated components, missing tags
    for s in (
        {"components": [], "relation": [], "decl": {}, "arrow_forms": []},
        {"components": ["Solo", "Duo"], "relation": [], "decl": {"Solo": ("[n]", None), "Duo": ("component [n] as a", "dd")}, "arrow_forms": []},
    ):
        text = write_and_parse(s, acc)
        account(s, text, acc)
    for tags in ((False, True), (True, False), (False, False)):
        s = dict(base, start_tag=tags[0], end_tag=tags[1])
        write_and_parse(s, acc)
        acc.count("tagless_files")
    # the words of both tags occur, but no end tag follows the start tag
    from pytestarch.diagram_extension.diagram_parser import PumlParser

    d = os.path.join(trees.scratch_dir(), "puml")
    os.makedirs(d, exist_ok=True)
    for k, text in enumerate(["' close the block with @enduml\n@startuml\n[Alpha] --> [Beta]\n", "@enduml\n@startuml\n[Alpha] --> [Beta]\n", "text @enduml text\n\n@startuml\ncomponent Alpha\n"]):
        path = os.path.join(d, f"endfirst{k}.puml")
        open(path, "w").write(text)
        register_puml(path, ["Alpha", "Beta"], [("Alpha", "Beta")], True)
        HUB.case = {"kind": "raw", "text": text}
        try:
            PumlParser().parse(path)
        except Exception:  # noqa: BLE001  (judged by the monitor)
            pass
        acc.evaluated()
        acc.count("tagless_files")
        os.unlink(path)
    # every declaration form x every reference form x every arrow form
    for df, rf, ar in itertools.product(rpuml.DECL_FORMS, rpuml.REF_FORMS, rpuml.ARROWS):
        if rf == "alias" and " as a" not in df:
            continue
        for name in ("Mod_1", "src.pkg.mod"):
            s = {
                "components": [name, "Other"],
                "relation": [(name, "Other"), ("Other", name)],
                "decl": {name: (df, "zz" if " as a" in df else None), "Other": ("[n]", None)},
                "arrow_forms": [(ar, rf, "[n]", "up"), (ar, "[n]", rf, "down")],
            }
            text = write_and_parse(s, acc)
            account(s, text, acc)
            acc.count("form_matrix_cells")
    acc.flags["exhaustive_form_matrix"] = True


def replay(case, acc):
    if case.get("kind") == "same-path":
        same = os.path.join(trees.scratch_dir(), "puml", "same_path.puml")
        os.makedirs(os.path.dirname(same), exist_ok=True)
        write_and_parse(case["first"], acc, {"kind": "diagram", "spec": case["first"]}, path=same)
        st = os.stat(same)
        write_and_parse(case["spec"], acc, case, path=same, keep_mtime_of=(st.st_atime_ns, st.st_mtime_ns))
        os.unlink(same)
        return
    write_and_parse(case["spec"], acc, case)


def floors(acc, tier):
    why = []
    for c, n in (("diagrams_with_an_arrow_drawn_twice", 50), ("diagrams_parsed_by_a_long_lived_parser_object", 200), ("parse_results_read_by_subscript", 500)):
        if acc.counters[c] < n:
            why.append(f"{c}: only {acc.counters[c]}")
    for name, forms in (("decl_form", rpuml.DECL_FORMS), ("arrow_form", rpuml.ARROWS), ("ref_form", rpuml.REF_FORMS)):
        for f in forms:
            if acc.hists.get(name, {}).get(f, 0) == 0:
                why.append(f"{name} {f} never used")
    for c, n in (("c06_judged", 1000), ("dependor_by_alias_and_by_name", 10), ("dotted_diagrams", 50), ("c06_tagless_judged", 3), ("line_permutations", 120), ("rewritten_at_same_path_with_same_mtime", 50), ("reparsed_after_the_result_was_edited", 200)):
        if acc.counters[c] < n:
            why.append(f"{c}: only {acc.counters[c]}")
    if acc.hists.get("line_ending", {}).get(repr("\r\n"), 0) < 50:
        why.append("too few diagrams with CRLF line endings")
    acc.flags["exhaustive"] = bool(acc.flags.get("exhaustive_form_matrix"))
    acc.flags["exhaustive_subspaces"] = "declaration form x reference form x arrow form matrix (single and dotted names); all 120 line orders of a 5-line diagram"
    return why
