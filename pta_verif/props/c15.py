"""C15 - evaluation is pure and independent of order, history and hash seed.

Deciding steps: (a) invariant hook: graph snapshot before/after every evaluation (armed in every
workload of every check; here driven hard); (b) offline checker over per-rule-key outcome
histories: fresh vs re-applied, permuted interleavings, after use on another architecture;
(c) permuted list-valued arguments; (d) scans under shuffled directory enumeration (shim counts
what it shuffled); (e) fresh interpreters under 8 hash seeds printing outcome digests; (f) extra
hostility: threads with sys.monitoring yield injection inside pytestarch frames.
"""
from __future__ import annotations

import hashlib
import json
import os
import random
import subprocess
import sys
import threading
import time
from pathlib import Path

from .. import boot, trees
from ..drive import build, mk_rule, random_imports, random_tree, run
from ..monitors import HUB, graph_state
from ..refmodel import rules as rrule
from . import c05, c07

ID = "C15"
LEVEL = "exploration"
TECHNIQUE = "invariant hook (graph snapshot before/after every evaluation) + offline history checker over recorded (verdict, message) per rule key across interleavings, permutations, shuffled directory enumeration, hash seeds; thread stress with sys.monitoring yield injection"
LEVEL_TEXT = (
    "Held on everything observed: no evaluation changed the evaluable (snapshot hook), every rule object produced the same (verdict, message) in "
    "every history it appeared in (fresh, re-applied 1-3x, permuted interleavings of up to 40 rules, after evaluation on another architecture), "
    "permuting subjects/objects/layers/exclusion tuples changed nothing, scans under shuffled directory enumeration built equal architectures, "
    "8 interpreters with PYTHONHASHSEED 0-7 printed identical outcome digests, and 8 threads with injected yields agreed with the sequential run."
)
LEVEL_NOTE = "Metamorphic: only the independence stated in C15 is assumed; the thread stress is additional hostility, not a thread-safety claim."
LEVEL_TEXT += ' One LayerRule object is applied to two architectures with different module sets (a regex layer the rule does not mention matches a module only one of them has); shuffled-enumeration scans include trees with a package reachable under a second name through a directory symlink. Additionally an end-to-end soak: random projects on disk are scanned with the real scanner (externals kept or dropped, external exclusions, level limits, module_path below the root) and module rules, layer rules, diagram rules and plots are interleaved on those architectures with every monitor armed.'
LEVEL_TEXT += ' The hash-seed probe contains modules that differ only in case / zero padding; shuffled scans include a module file beside a package of the same name.'
RULE = "an evaluation = one rule evaluation / scan inside a history; a case = one pool + its interleavings, or one tree + its enumeration orders; non-trivial = pool in which some rule failed with a multi-line message; distinct = distinct (pool, interleaving) / (tree, order) pairs"
ASSUMPTIONS = ["the directory-enumeration shim shuffles pathlib.Path.iterdir (what the parser uses); zero shuffles make the run inconclusive"]
SHARD_TIMEOUT = {"quick": 900, "thorough": 3000}


def plan(tier, seed):
    q = tier == "quick"
    specs = [{"kind": "histories", "pools": 6 if q else 120, "interleavings": 10 if q else 18} for _ in range(5 if q else 12)]
    specs += [{"kind": "permutations", "n": 300 if q else 8000} for _ in range(2 if q else 4)]
    specs += [{"kind": "enumeration", "n": 25 if q else 500} for _ in range(2 if q else 4)]
    specs += [{"kind": "hashseeds", "seeds": 8}]
    specs += [{"kind": "threads", "rounds": 3 if q else 25}]
    return specs


def run_shard(spec, acc):
    rnd = random.Random(spec["seed"])
    k = spec["kind"]
    if k == "histories":
        for i in range(spec["pools"]):
            histories(rnd, spec["interleavings"], acc, sample=(i == 0))
            after_dead_architectures(rnd, acc)
            for _ in range(5):
                # one 'anything' rule object, logged with str() and re-used for one subject after the other: every
                # application equals that of a fresh rule for the same subject
                from . import c01

                m0 = random_tree(rnd, 7, 11)
                i0 = random_imports(rnd, m0, k_max=10)
                e0 = build(m0, i0, check=False)
                for (kind_, subj), d_, got in c01.anything_rule_looped_over_subjects(e0, m0, i0, rnd, acc) or []:
                    fresh = run(mk_rule({"verb": "should_not", "dir": d_, "exc": False, "subs": [(kind_, subj)], "objs": [], "anything": True}), e0)
                    acc.evaluated()
                    acc.count("looped_rule_object_applications_compared_with_a_fresh_rule")
                    if got != fresh:
                        HUB.violation("C15", "history-dependent-outcome:anything-rule-object-looped-over-subjects", f"an 'anything' rule object that was printed and re-used for several subjects gave {got[0]} for {subj}, a fresh rule {fresh[0]}", {"mods": m0, "imps": i0, "subject": [kind_, subj], "dir": d_, "looped": got, "fresh": fresh})
            for _ in range(6):
                layer_rule_two_architectures(rnd, acc)
    elif k == "permutations":
        for i in range(spec["n"]):
            permutations(rnd, acc)
    elif k == "enumeration":
        from .. import lazyscan

        for i in range(spec["n"]):
            enumeration(rnd, acc, sample=(i == 0))
            # two scans of the same tree: one result used at once, the other only after the tree was removed / rewritten
            # or the working directory changed
            lazyscan.late_use_case(rnd, acc, "C15", {})
            if i % 2 == 1:
                # the same path, another content (same sizes, same time stamps): the architecture follows the tree, not
                # what this process scanned there before
                lazyscan.rescan_after_edit(rnd, acc, "C15", {"edge-missing": "C15", "edge-extra": "C15", "nodes": "C15"})
                spelling_twins(rnd, acc)
    elif k == "hashseeds":
        hashseeds(spec["seeds"], acc)
    else:
        threads(rnd, spec["rounds"], acc)


# -- pool of rule objects ---------------------------------------------------------------------------------


def make_pool(rnd, mods, imps, n=40, puml_dir=None):
    """[(key, factory)] - factory() builds a fresh, equal rule object."""
    from pytestarch import DiagramRule

    pool = []
    names = [m for m in mods if m != "r"]
    tops = [m for m in mods if m.count(".") == 1]
    for i in range(n):
        r = rnd.random()
        if r < 0.6 or len(tops) < 3:
            skind, okind = rnd.choice(["named", "named", "sub"]), rnd.choice(["named", "named", "sub"])
            subs = rnd.sample(names, min(len(names), rnd.randint(1, 3)))
            objs = rnd.sample(names, min(len(names), rnd.randint(1, 3)))
            q = rnd.random()
            if q < 0.15:
                cfg = {"verb": "should_not", "dir": rnd.choice(rrule.DIRS), "exc": False, "subs": [(skind, s) for s in subs], "objs": [], "anything": True}
            elif q < 0.3:
                cfg = {"verb": rnd.choice(rrule.VERBS), "dir": rnd.choice(rrule.DIRS), "exc": rnd.random() < 0.5, "subs": [("regex", r"r\.[a-z_]+$")], "objs": [(okind, o) for o in objs], "anything": False}
            else:
                cfg = {"verb": rnd.choice(rrule.VERBS), "dir": rnd.choice(rrule.DIRS), "exc": rnd.random() < 0.5, "subs": [(skind, s) for s in subs], "objs": [(okind, o) for o in objs], "anything": False}
            pool.append((f"rule{i}", (lambda c=cfg: mk_rule(c)), {"rule": cfg}))
        elif r < 0.85:
            ts = tops[:]
            rnd.shuffle(ts)
            nl = rnd.randint(2, min(3, len(ts)))
            layers = {f"L{j}": [ts[j]] for j in range(nl)}
            kinds = {k: rnd.choice(["named", "regex"]) for k in layers}
            ln = list(layers)
            anything = rnd.random() < 0.15
            cfg = {"verb": "should_not" if anything else rnd.choice(rrule.VERBS), "dir": rnd.choice(rrule.DIRS), "exc": rnd.random() < 0.5, "anything": anything, "subject": ln[0], "objects": [] if anything else ln[1 : 1 + rnd.randint(1, nl - 1)]}
            pool.append((f"layer{i}", (lambda l=layers, k=kinds, c=cfg: c05.make_rule(c05.make_arch(l, k, False), c, False)), {"layers": layers, "kinds": kinds, "rule": cfg}))
        else:
            import re as _re

            # component names the diagram parser's name class can spell (see the known finding of C06)
            dtops = [t for t in tops if _re.fullmatch(r"[\w.]+", t) and not t.endswith("__init__")]
            if len(dtops) < 2:
                continue
            comps = rnd.sample(dtops, min(len(dtops), rnd.randint(2, 4)))
            pairs = [(a, b) for a in comps for b in comps if a != b]
            rel = rnd.sample(pairs, rnd.randint(1, min(4, len(pairs))))
            spec = {"components": comps, "relation": rel, "decl": {c: ("[n]", None) for c in comps}, "arrow_forms": [("-->", "[n]", "[n]", "up") for _ in rel]}
            path = c07.write_diagram(spec, f"pool{rnd.randint(0, 10**9)}.puml")
            mode = rnd.random() < 0.5
            pool.append((f"diagram{i}", (lambda p=path, m=mode: DiagramRule(should_only_rule=m).from_file(Path(p)).base_module_included_in_module_names()), {"diagram": rel, "should_only": mode}))
    return pool


def after_dead_architectures(rnd, acc, rounds=12):
    """A process that builds an architecture, evaluates rules, drops it and builds the next one (a test session over
    several projects, a watch mode): architectures that share module names but differ below them follow one another, each
    at whatever address the allocator hands out - often the one of its dead predecessor.  The outcome of a rule on the
    architecture at hand must equal the outcome on a twin built from the same data while the first is still alive (the twin
    cannot share its address)."""
    import gc

    base = random_tree(rnd, 7, 10)
    case = {"kind": "dead-architectures", "base": base}
    for r in range(rounds):
        # same names on top, different modules below them in every round
        parents = [m for m in base if m != "r"]
        extra = sorted({rnd.choice(parents) + "." + rnd.choice(["x", "y", "z", "w", "v"]) for _ in range(rnd.randint(1, 4))} - set(base))
        mods = base + extra
        imps = random_imports(rnd, mods, k_max=10)
        names = [m for m in mods if m != "r"]
        cfgs = []
        for _ in range(4):
            k1, k2 = rnd.choice(["named", "sub"]), rnd.choice(["named", "sub"])
            cfgs.append({"verb": rnd.choice(rrule.VERBS), "dir": rnd.choice(rrule.DIRS), "exc": rnd.random() < 0.5, "subs": [(k1, rnd.choice(parents))], "objs": [(k2, rnd.choice(parents))], "anything": False})
        cfgs.append({"verb": "should_not", "dir": rnd.choice(rrule.DIRS), "exc": False, "subs": [("named", rnd.choice(parents))], "objs": [], "anything": True})
        cfgs.append({"verb": rnd.choice(rrule.VERBS), "dir": rnd.choice(rrule.DIRS), "exc": False, "subs": [("regex", r"r\.[a-z_0-9]+$")], "objs": [("named", rnd.choice(names))], "anything": False})
        ev = build(mods, imps, check=False)
        first = [run(mk_rule(c), ev) for c in cfgs]
        twin = build(mods, imps, check=False)
        second = [run(mk_rule(c), twin) for c in cfgs]
        acc.evaluated(2 * len(cfgs))
        acc.count("rule_outcomes_compared_with_a_twin_after_dead_architectures", len(cfgs))
        for c, o1, o2 in zip(cfgs, first, second):
            if o1 != o2:
                HUB.case = dict(case, round=r, mods=mods, imps=imps, cfg=c)
                HUB.violation("C15", f"outcome-depends-on-earlier-architectures:{rrule.shape(c) if c['subs'][0][0] != 'regex' else 'regex'}", f"the same rule on two architectures built from the same data gave {o1[0]} and {o2[0]} (round {r} of a build / evaluate / drop loop)", {"first": o1, "twin": o2, "cfg": c})
        del ev, twin
        if r % 3 == 0:
            gc.collect()


def spelling_twins(rnd, acc, forced=None):
    """Two scans of the same tree, the directories once given as plain absolute strings and once in another spelling the
    caller may use - pathlib.Path objects with '..' components (Path(__file__).parent / ".." / "src"), externals kept or
    not: equal sets of modules and imports."""
    from pytestarch import get_evaluable_architecture

    spec = forced["spec"] if forced else trees.random_project(rnd, depth=3, imports_per_file=(1, 3), externals=0.25, name_imports=0.2, extras=False)
    root = trees.write_tree(spec)
    try:
        dirs = [d for d in trees.all_dirs(spec) if d]
        mp = (forced["mp"] if forced else (rnd.choice(dirs) if dirs and rnd.random() < 0.6 else ""))
        mp_abs = os.path.join(root, mp) if mp else root
        name = os.path.basename(root)
        tops = [d for d in dirs if "/" not in d]
        for kw in ({}, {"exclude_external_libraries": False}):
            case = {"kind": "spelling-twins", "spec": spec, "mp": mp, "kw": kw}
            HUB.case = case
            get_evaluable_architecture(root, mp_abs, **kw)
            plain = HUB.scan_events[-1]
            spellings = {
                "pathlib-dotdot-root": (Path(root) / os.pardir / name, Path(mp_abs)),
                "pathlib-dotdot-module": (Path(root), (Path(mp_abs) / os.pardir / os.path.basename(mp_abs)) if mp else Path(root) / os.pardir / name),
                "pathlib-through-a-child": (Path(root), (Path(root) / tops[0] / os.pardir / mp) if (mp and tops) else Path(root)),
                "str-dotdot": (os.path.join(root, os.pardir, name), mp_abs),
            }
            for label, (r_arg, m_arg) in spellings.items():
                HUB.case = dict(case, spelling=label)
                try:
                    get_evaluable_architecture(r_arg, m_arg, **kw)
                    tw = HUB.scan_events[-1]
                except Exception as e:  # noqa: BLE001
                    HUB.violation("C15", f"scan-depends-on-path-spelling:{label}:raises-{type(e).__name__}", f"the same directories given as {label} raised {type(e).__name__}: {e}", {"mp": mp, "kw": kw})
                    continue
                acc.evaluated()
                acc.count("scans_of_one_tree_under_another_path_spelling")
                if tw.state != plain.state:
                    HUB.violation("C15", f"scan-depends-on-path-spelling:{label}", "two scans of the same tree - directories spelled differently - build different architectures", {"mp": mp, "kw": kw, "nodes_diff": sorted(tw.nodes ^ plain.nodes)[:12], "imports_diff": sorted(tw.imps ^ plain.imps)[:12]})
    finally:
        trees.remove_tree(root)


def histories(rnd, n_inter, acc, sample=False):
    mods = random_tree(rnd, 8, 13)
    imps = random_imports(rnd, mods, k_max=14)
    ev = build(mods, imps)
    mods2 = random_tree(rnd, 8, 13)
    other = build(sorted(set(mods2) | set(mods)), random_imports(rnd, mods2, k_max=10))
    pool = make_pool(rnd, mods, imps, n=rnd.randint(20, 40))
    case = {"kind": "histories", "mods": mods, "imps": imps, "pool": [d for _k, _f, d in pool]}
    HUB.case = case
    # reference: every rule fresh, once
    ref = {}
    for key, factory, _d in pool:
        ref[key] = run(factory(), ev)
        acc.evaluated()
    multi = any(o == "fail" and m.count("\n") >= 1 for o, m in ref.values())
    state0 = graph_state(ev)
    for it in range(n_inter):
        objs = {key: factory() for key, factory, _d in pool}
        seq = []
        for key in objs:
            seq += [key] * rnd.randint(1, 3)
        rnd.shuffle(seq)
        seq = seq[:40] if rnd.random() < 0.5 else seq
        seen = {}
        for key in seq:
            if rnd.random() < 0.2:
                run(objs[key], other)  # same object used on another architecture first
                acc.evaluated()
                acc.count("evaluations_on_another_architecture")
            out = run(objs[key], ev)
            acc.evaluated()
            seen[key] = seen.get(key, 0) + 1
            if seen[key] > 1:
                acc.count("re_applications")
            acc.count("history_comparisons")
            if out != ref[key]:
                HUB.case = case
                kind = "re-applied" if seen[key] > 1 else "after-other-rules"
                HUB.violation("C15", f"history-dependent-outcome:{key.rstrip('0123456789')}:{kind}", f"rule {key} gave {out[0]} in this history but {ref[key][0]} when evaluated fresh", {"rule": next(d for k, _f, d in pool if k == key), "fresh": ref[key], "in_history": out, "position": len(seen), "times": seen[key]})
        acc.count("interleavings")
        acc.nontrivial({"p": case["pool"], "it": it, "s": seq}) if multi else None
    if graph_state(ev) != state0:
        HUB.violation("C15", "evaluable-mutated", "the shared evaluable changed over the histories", {"mods": mods})
    if sample:
        acc.sample({"kind": "history", "modules": mods, "imports": imps, "pool_size": len(pool), "first_rules": case["pool"][:3]})


def layer_rule_two_architectures(rnd, acc):
    """ONE LayerRule object (and ONE LayeredArchitecture) applied to two architectures whose module sets differ: a
    regex-defined layer matches a class of top-level modules of which one exists only in the bigger architecture.
    Outcome and message on each architecture must equal those of a fresh, equal rule that never saw the other."""
    tops = rnd.sample(["r.a", "r.b", "r.c", "r.d", "r.e", "r.f", "r.ab", "r.a_b"], 6)
    big = ["r"] + tops + [t + ".s" for t in tops if rnd.random() < 0.5]
    only_big = tops[5]
    small = [m for m in big if m != only_big and not m.startswith(only_big + ".")]
    imps_big = random_imports(rnd, big, k_max=12)
    for _ in range(2):  # make the module that only the bigger architecture has take part
        imps_big.append(rnd.choice([(tops[0], only_big), (only_big, tops[0]), (tops[0] + ".s" if tops[0] + ".s" in big else tops[0], only_big)]))
    imps_big = sorted(set(imps_big))
    layers = {"L0": [tops[0]], "L1": [tops[1]], "L2": [tops[2]], "LX": [tops[4], only_big]}
    kinds = {"L0": "named", "L1": rnd.choice(["named", "regex"]), "L2": rnd.choice(["named", "regex"]), "LX": "regex"}
    for _k in range(4):
        names = ["L0", "L1", "L2", "LX"]
        subject = rnd.choice(names[:3])
        objects = rnd.sample([n for n in names if n != subject], rnd.randint(1, 2))
        cfg = {"verb": rnd.choice(rrule.VERBS), "dir": rnd.choice(rrule.DIRS), "exc": rnd.random() < 0.5, "anything": False, "subject": subject, "objects": objects}
        two_architectures_case({"kind": "layer-two-architectures", "big": big, "small": small, "imps_big": imps_big, "layers": layers, "kinds": kinds, "cfg": cfg}, acc)


def two_architectures_case(case, acc):
    big, small, layers, kinds, cfg = case["big"], case["small"], case["layers"], case["kinds"], case["cfg"]
    imps_big = [tuple(i) for i in case["imps_big"]]
    imps_small = [(a, b) for a, b in imps_big if a in small and b in small]
    archs = {"big": build(big, imps_big), "small": build(small, imps_small)}
    HUB.case = case
    factory = lambda: c05.make_rule(c05.make_arch(layers, kinds, False), cfg, False)  # noqa: E731
    fresh = {k: run(factory(), ev) for k, ev in archs.items()}
    for order in (("small", "big"), ("big", "small"), ("small", "big", "small")):
        rule = factory()
        for pos, k in enumerate(order):
            out = run(rule, archs[k])
            acc.evaluated()
            acc.count("history_comparisons")
            if pos:
                acc.count("layer_rule_reapplied_to_other_architecture")
                if "LX" not in (cfg["subject"], *cfg["objects"]):
                    acc.count("layer_rule_reapplied_with_unmentioned_regex_layer")
            if out != fresh[k]:
                HUB.violation("C15", "history-dependent-outcome:layer:other-architecture-first", f"layer rule object applied to {' then '.join(order[: pos + 1])} gave another outcome/message on '{k}' than a fresh equal rule", {"cfg": cfg, "order": list(order), "fresh": fresh[k], "in_history": out})
    if any(o == "fail" for o, _m in fresh.values()):
        acc.nontrivial(case)


# -- permuted arguments ---------------------------------------------------------------------------------------


def permutations(rnd, acc):
    mods = random_tree(rnd, 7, 12)
    imps = random_imports(rnd, mods, k_max=12)
    ev = build(mods, imps)
    names = [m for m in mods if m != "r"]
    kind = rnd.choice(["named", "sub"])
    subs = rnd.sample(names, min(len(names), 3))
    objs = rnd.sample(names, min(len(names), 3))
    cfg = {"verb": rnd.choice(rrule.VERBS), "dir": rnd.choice(rrule.DIRS), "exc": rnd.random() < 0.5, "subs": [(kind, s) for s in subs], "objs": [(kind, o) for o in objs], "anything": rnd.random() < 0.25}
    if cfg["anything"]:
        cfg.update(verb="should_not", objs=[])
        from ..refmodel.names import is_ancestor as _anc

        nested = [(a, b) for a in names for b in names if _anc(a, b)]
        if nested and rnd.random() < 0.7:
            # subjects that contain one another (the rule collapses them, whatever order they are listed in)
            a, b = rnd.choice(nested)
            rest = [n for n in names if n not in (a, b)]
            cfg["subs"] = [(kind, x) for x in [a, b] + rnd.sample(rest, min(len(rest), rnd.randint(0, 2)))]
            acc.count("permuted_anything_rules_with_nested_subjects")
    case = {"kind": "permutation", "mods": mods, "imps": imps, "cfg": cfg}
    HUB.case = case
    base = run(mk_rule(cfg), ev)
    acc.evaluated()
    for _ in range(3):
        c2 = dict(cfg, subs=rnd.sample(cfg["subs"], len(cfg["subs"])), objs=rnd.sample(cfg["objs"], len(cfg["objs"])))
        out = run(mk_rule(c2), ev)
        acc.evaluated()
        acc.count("argument_permutations")
        if out != base:
            HUB.violation("C15", f"argument-order-dependent:{rrule.shape(cfg)}", "permuting the listed subjects/objects changed the outcome", {"cfg": cfg, "permuted": c2, "base": base, "out": out})
    acc.nontrivial(case) if base[0] == "fail" else None
    # layer definition order / object layer order
    tops = [m for m in mods if m.count(".") == 1]
    if len(tops) >= 3:
        layers = {"L0": [tops[0]], "L1": [tops[1]], "L2": tops[2:4]}
        lcfg = {"verb": rnd.choice(rrule.VERBS), "dir": rnd.choice(rrule.DIRS), "exc": rnd.random() < 0.5, "anything": False, "subject": "L0", "objects": ["L1", "L2"]}
        kinds = {k: "named" for k in layers}
        b = run(c05.make_rule(c05.make_arch(layers, kinds, False), lcfg, False), ev)
        l2 = {k: list(reversed(layers[k])) for k in reversed(list(layers))}
        o = run(c05.make_rule(c05.make_arch(l2, kinds, False), dict(lcfg, objects=["L2", "L1"]), False), ev)
        acc.evaluated(2)
        acc.count("layer_permutations")
        if o != b:
            HUB.violation("C15", "layer-order-dependent", "permuting layer definitions / object layers changed the outcome", {"layers": layers, "cfg": lcfg, "base": b, "out": o})


# -- directory enumeration order -----------------------------------------------------------------------------


class ShuffledIterdir:
    def __init__(self, rnd):
        self.rnd = rnd
        self.count = 0

    def __enter__(self):
        self.orig = Path.iterdir
        shim = self

        def iterdir(p):
            items = list(shim.orig(p))
            if len(items) > 1:
                shim.rnd.shuffle(items)
                shim.count += 1
            return iter(items)

        Path.iterdir = iterdir
        # the same perturbation for code that walks the tree through os.scandir / os.listdir / os.walk
        self.orig_scandir, self.orig_listdir = os.scandir, os.listdir

        class _Shuffled:
            def __init__(s2, path):
                with shim.orig_scandir(path) as it:
                    s2.entries = list(it)
                if len(s2.entries) > 1:
                    shim.rnd.shuffle(s2.entries)
                    shim.count += 1
                s2.i = 0

            def __iter__(s2):
                return s2

            def __next__(s2):
                if s2.i >= len(s2.entries):
                    raise StopIteration
                s2.i += 1
                return s2.entries[s2.i - 1]

            def __enter__(s2):
                return s2

            def __exit__(s2, *a):
                return False

            def close(s2):
                pass

        def scandir(path="."):
            return _Shuffled(path)

        def listdir(path="."):
            items = shim.orig_listdir(path)
            if len(items) > 1:
                shim.rnd.shuffle(items)
                shim.count += 1
            return items

        os.scandir, os.listdir = scandir, listdir
        return self

    def __exit__(self, *a):
        Path.iterdir = self.orig
        os.scandir, os.listdir = self.orig_scandir, self.orig_listdir


def enumeration(rnd, acc, sample=False):
    from pytestarch import get_evaluable_architecture

    spec = trees.random_project(rnd, depth=3, imports_per_file=(0, 3), externals=0.15)
    all_d = [d for d in trees.all_dirs(spec)]
    if rnd.random() < 0.35 and len(all_d) >= 3:
        # a package reachable under a second name through a directory symlink placed outside of it
        target = rnd.choice([d for d in all_d if d])
        depth = lambda d: d.count("/") + 1 if d else 0  # noqa: E731
        # the second name is at least as deep as the first one: relative imports written for the package's real
        # location then never reach beyond the root (which would be an illegal program, outside the property)
        homes = [d for d in all_d if d != target and not d.startswith(target + "/") and depth(d) + 1 >= depth(target)]
        if homes:
            home = rnd.choice(homes)
            spec["symlinks"] = [((home + "/" if home else "") + "lnk", target)]
            acc.count("enumeration_trees_with_symlinked_package")
    if rnd.random() < 0.25:
        # a module file next to a package of the same name (billing.py beside billing/): both are scanned under one name,
        # whatever that is worth - but in every enumeration order alike
        cands = [d for d in all_d if d]
        if cands:
            d = rnd.choice(cands)
            others = [trees.mod_of("proj", f) for f in spec["files"] if f.endswith(".py") and not f.startswith(d + "/") and all(p.isidentifier() for p in f[:-3].split("/"))]
            lines = [f"import {t}" for t in rnd.sample(others, min(2, len(others)))]
            kids = [trees.mod_of("proj", f) for f in spec["files"] if f.startswith(d + "/") and f.endswith(".py") and f.count("/") == d.count("/") + 1 and all(p.isidentifier() for p in f[:-3].split("/"))]
            if kids:
                # the shadowing file imports a child of the package of the same name, and so does somebody else
                kid = rnd.choice(kids)
                lines.insert(rnd.randint(0, len(lines)), f"import {kid}")
                other_files = sorted(f for f in spec["files"] if f.endswith(".py") and not f.startswith(d + "/"))
                if other_files:
                    f2 = rnd.choice(other_files)
                    spec["files"][f2] = f"import {kid}\n" + spec["files"][f2]
            spec["files"][d + ".py"] = "\n".join(lines) + "\nshadow = 1\n"
            acc.count("enumeration_trees_with_file_beside_package")
    root = trees.write_tree(spec)
    case = {"kind": "enumeration", "spec": spec}
    try:
        HUB.case = case
        include = rnd.random() < 0.4
        excl = rnd.choice([None, ("*__init__.py", "*util*"), ("*util*", "*__init__.py")])
        kw = {"exclude_external_libraries": not include}
        dirs = [d for d in trees.all_dirs(spec) if d]
        if dirs and rnd.random() < 0.5:
            # exclude a package that other modules import (the package itself and something below it)
            d = rnd.choice(dirs)
            pkg = trees.mod_of("proj", d)
            below = [trees.mod_of("proj", f) for f in spec["files"] if f.startswith(d + "/") and f.endswith(".py") and all(p.isidentifier() for p in f[:-3].split("/"))]
            importers = sorted(f for f in spec["files"] if f.endswith(".py") and not f.startswith(d + "/"))
            for f in importers[:3]:
                extra = f"from {pkg} import helper_name\n" + (f"from {rnd.choice(below)} import thing\n" if below else "")
                spec["files"][f] = extra + spec["files"][f]
                with open(os.path.join(root, f), "w") as fh:
                    fh.write(spec["files"][f])
            kw["exclusions"] = ("*/" + os.path.basename(d),)
            acc.count("shuffled_scans_with_excluded_imported_package")
        get_evaluable_architecture(root, root, **kw)
        base = HUB.scan_events[-1]
        acc.evaluated()
        names = [n for n in base.nodes if n.count(".") >= 1]
        rules = []
        for _ in range(5):
            if len(names) >= 2:
                a, b = rnd.sample(sorted(names), 2)
                rules.append({"verb": rnd.choice(rrule.VERBS), "dir": rnd.choice(rrule.DIRS), "exc": rnd.random() < 0.5, "subs": [("named", a)], "objs": [("named", b)], "anything": False})
        ref = [run(mk_rule(c), base.evaluable) for c in rules]
        for _ in range(3):
            with ShuffledIterdir(rnd) as sh:
                get_evaluable_architecture(root, root, **kw)
            se = HUB.scan_events[-1]
            acc.evaluated()
            acc.count("enumerations_shuffled", sh.count)
            acc.count("scan_order_comparisons")
            if se.state != base.state:
                HUB.violation("C15", "scan-depends-on-enumeration-order", "two scans of the same tree under different directory enumeration orders differ", {"nodes_diff": sorted(se.nodes ^ base.nodes), "imports_diff": sorted(se.imps ^ base.imps)})
            outs = [run(mk_rule(c), se.evaluable) for c in rules]
            if outs != ref:
                HUB.violation("C15", "verdict-depends-on-enumeration-order", "rule outcomes differ between two scans of the same tree", {"rules": rules, "ref": ref, "outs": outs})
            acc.nontrivial({"t": spec, "n": sh.count})
        # hand-written regex exclusions (back-reference to the own group, inline flag): any order, same architecture
        rex = [r".*/(\w)\1\.py$", r".*/(util|h)(/.*)?$", r".*/m(\d)\1?\.py$"]
        states = []
        for order in (rex, rex[::-1], rex[1:] + rex[:1]):
            get_evaluable_architecture(root, root, exclusions=(), regex_exclusions=tuple(order))
            states.append(HUB.scan_events[-1].state)
            acc.evaluated()
        acc.count("regex_exclusion_tuple_permutations")
        if len(set(states)) > 1:
            HUB.violation("C15", "exclusion-order-dependent:regex", "permuting the regex exclusion tuple changed the architecture", {"regex_exclusions": rex})
        if excl:
            get_evaluable_architecture(root, root, exclusions=excl)
            s1 = HUB.scan_events[-1]
            get_evaluable_architecture(root, root, exclusions=tuple(reversed(excl)))
            s2 = HUB.scan_events[-1]
            acc.count("exclusion_tuple_permutations")
            if s1.state != s2.state:
                HUB.violation("C15", "exclusion-order-dependent", "permuting the exclusion tuple changed the architecture", {"exclusions": excl})
        if sample:
            acc.sample({"kind": "enumeration", "files": sorted(spec["files"])[:8], "shuffles": 3, "rules": rules[:2]})
    finally:
        trees.remove_tree(root)


# -- hash seeds -------------------------------------------------------------------------------------------------


def hashseeds(n, acc):
    digests = {}
    details = {}
    for seed in range(n):
        env = dict(os.environ, PYTHONHASHSEED=str(seed), PYTHONPATH=boot.VERIF + os.pathsep + os.environ.get("PYTHONPATH", ""))
        try:
            p = subprocess.run([sys.executable, "-m", "pta_verif.hashseed_probe"], env=env, capture_output=True, text=True, timeout=300, cwd=boot.VERIF)
        except subprocess.TimeoutExpired:
            acc.mark_inconclusive(f"hash-seed probe {seed} timed out")
            continue
        if p.returncode != 0:
            acc.mark_inconclusive(f"hash-seed probe {seed} crashed: {p.stderr[-400:]}")
            continue
        out = json.loads(p.stdout.strip().split("\n")[-1])
        digests[seed] = out["digest"]
        details[seed] = out["items"]
        acc.evaluated(out["n"])
        acc.count("hash_seed_runs")
        acc.nontrivial({"seed": seed})
    if len(set(digests.values())) > 1:
        seeds = sorted(digests)
        a = seeds[0]
        for b in seeds[1:]:
            if digests[b] != digests[a]:
                diff = [k for k in details[a] if details[a][k] != details[b].get(k)]
                HUB.case = {"kind": "hashseeds"}
                HUB.violation("C15", "hash-seed-dependent-outcome", f"outcomes differ between PYTHONHASHSEED={a} and {b}", {"items": diff[:5], "a": {k: details[a][k] for k in diff[:3]}, "b": {k: details[b][k] for k in diff[:3]}})
                break
    acc.sample({"kind": "hash seeds", "seeds": sorted(digests), "digest": next(iter(digests.values()), None)})


# -- threads (extra hostility) -----------------------------------------------------------------------------------


def threads(rnd, rounds, acc):
    mon = getattr(sys, "monitoring", None)
    injected = [0]
    src = boot.SRC + os.sep
    tool = None
    if mon is not None:
        tool = mon.PROFILER_ID
        try:
            mon.use_tool_id(tool, "pta_verif_yield")

            def on_line(code, line):
                if not code.co_filename.startswith(src):
                    return mon.DISABLE
                injected[0] += 1
                if injected[0] % 7 == 0:
                    time.sleep(0)
                return None

            mon.register_callback(tool, mon.events.LINE, on_line)
        except Exception:  # noqa: BLE001
            tool = None
    try:
        for _ in range(rounds):
            mods = random_tree(rnd, 8, 12)
            imps = random_imports(rnd, mods, k_max=12)
            ev = build(mods, imps)
            pool = [p for p in make_pool(rnd, mods, imps, n=24) if not p[0].startswith("diagram")]
            ref = {k: run(f(), ev) for k, f, _d in pool}
            acc.evaluated(len(pool))
            results = {}
            HUB.active = False  # the monitors' own state is not thread-safe: observe at the outcome level only
            if tool is not None:
                mon.set_events(tool, mon.events.LINE)
            try:
                def worker(items):
                    for k, f, _d in items:
                        for _rep in range(2):
                            results.setdefault(k, []).append(run(f(), ev))

                ts = [threading.Thread(target=worker, args=(pool[i::8],)) for i in range(8)]
                for t in ts:
                    t.start()
                for t in ts:
                    t.join(120)
            finally:
                if tool is not None:
                    mon.set_events(tool, 0)
                HUB.active = True
            for k, outs in results.items():
                acc.evaluated(len(outs))
                acc.count("threaded_evaluations", len(outs))
                if any(o != ref[k] for o in outs):
                    HUB.case = {"kind": "threads", "mods": mods, "imps": imps}
                    HUB.violation("C15", "thread-interleaving-dependent-outcome", f"rule {k} gave a different outcome under thread interleaving", {"ref": ref[k], "outs": outs})
        acc.count("yields_injected", injected[0] // 7)
        acc.count("line_events_in_pytestarch", injected[0])
    finally:
        if tool is not None:
            try:
                mon.free_tool_id(tool)
            except Exception:  # noqa: BLE001
                pass


def replay(case, acc):
    rnd = random.Random(0)
    if case["kind"] == "spelling-twins":
        return spelling_twins(rnd, acc, forced=case)
    if case["kind"] == "rescan-after-edit":
        from .. import lazyscan

        return lazyscan.rescan_after_edit(rnd, acc, "C15", {"edge-missing": "C15", "edge-extra": "C15", "nodes": "C15"}, forced=case)
    if case["kind"] == "permutation":
        ev = build(case["mods"], [tuple(i) for i in case["imps"]])
        cfg = case["cfg"]
        cfg = dict(cfg, subs=[tuple(s) for s in cfg["subs"]], objs=[tuple(o) for o in cfg["objs"]])
        base = run(mk_rule(cfg), ev)
        for _ in range(6):
            c2 = dict(cfg, subs=rnd.sample(cfg["subs"], len(cfg["subs"])), objs=rnd.sample(cfg["objs"], len(cfg["objs"])))
            out = run(mk_rule(c2), ev)
            if out != base:
                HUB.case = case
                HUB.violation("C15", f"argument-order-dependent:{rrule.shape(cfg)}", "permuting the listed subjects/objects changed the outcome", {"cfg": cfg, "permuted": c2})
    elif case["kind"] == "hashseeds":
        hashseeds(8, acc)
    elif case["kind"] == "layer-two-architectures":
        two_architectures_case(case, acc)
    elif case["kind"] == "late-use":
        from .. import lazyscan

        lazyscan.replay(case, acc, "C15", {})
    else:
        acc.mark_inconclusive(f"case kind {case['kind']} is replayed by re-running the check with the recorded seed")


def floors(acc, tier):
    why = []
    for c, n in (("purity_snapshots", 5000), ("history_comparisons", 3000), ("interleavings", 50), ("re_applications", 500), ("evaluations_on_another_architecture", 100), ("layer_rule_reapplied_with_unmentioned_regex_layer", 100), ("enumeration_trees_with_symlinked_package", 5), ("enumeration_trees_with_file_beside_package", 5), ("permuted_anything_rules_with_nested_subjects", 20), ("argument_permutations", 300), ("enumerations_shuffled", 50), ("hash_seed_runs", 8), ("threaded_evaluations", 100), ("scan_results_first_used_after_a_change", 20), ("rule_outcomes_compared_with_a_twin_after_dead_architectures", 500), ("scans_of_one_tree_under_another_path_spelling", 50), ("rescans_after_in_place_edit", 10)):
        if acc.counters[c] < n:
            why.append(f"{c}: only {acc.counters[c]}")
    return why
