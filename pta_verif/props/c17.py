"""C17 - plot labels: aliases replace the nearest aliased ancestor, all modules labelled.

Deciding step: the drawing backend is intercepted at its binding in networkxgraph; the keyword
arguments it receives are compared with R-LABEL and with the options visualize() was given.
"""
from __future__ import annotations

import itertools
import random

from ..drive import build, random_imports, random_tree
from ..monitors import HUB
from ..refmodel.names import is_ancestor

ID = "C17"
LEVEL = "exploration"
TECHNIQUE = "interception of the drawing backend at its binding; post-condition on the received kwargs (labels vs R-LABEL, pass-through, spacing->pos, unknown alias rejected)"
LEVEL_TEXT = (
    "Held on every observed visualize() call: labels cover exactly the modules, each label equals R-LABEL (most specific aliased whole-component "
    "ancestor), other options reach the backend unchanged, spacing becomes positions, unknown aliased modules are rejected with an error naming them. "
    "All alias subsets of small trees exhaustively (including prefix-sibling names); random larger trees, alias strings with dots, backslashes, \\1, brackets."
)
LEVEL_NOTE = "R-LABEL is 10 lines (monitors_more.r_label); nothing is drawn, the interceptor is the observation point. Zero interceptions make the run inconclusive."
LEVEL_TEXT += ' One caller-owned alias dict is re-used over several calls (values rewritten in place, then a smaller architecture); each call is judged against what the caller wrote. Additionally an end-to-end soak: random projects on disk are scanned with the real scanner (externals kept or dropped, external exclusions, level limits, module_path below the root) and module rules, layer rules, diagram rules and plots are interleaved on those architectures with every monitor armed.'
LEVEL_TEXT += ' Name pools include unusual legal identifiers (non-ASCII, combining marks, U+00B7, case / zero-padding twins, py*/init* names).'
RULE = "an evaluation = one visualize() call judged at the backend; non-trivial = aliases given for >= 1 module on a tree with >= 3 modules; distinct = distinct (tree, alias map, options) triples"
ASSUMPTIONS = ["matplotlib is importable (Agg backend); nothing is rendered"]
SHARD_TIMEOUT = {"quick": 900, "thorough": 3000}

ALIAS_STRINGS = ["A", "Bee", "x.y", "back\\slash", "\\1", "[br]", "(p)", "a+b", "", "Ümlaut", "$end"]
SMALL = [
    ["a", "a.ab", "a.ab.a", "a.b"],
    ["r", "r.a", "r.ab", "r.a.x"],
    ["r", "r.a", "r.a.b", "r.a.b.c", "r.aa"],
    ["r", "r.a_b", "r.a", "r.a0"],
]


def plan(tier, seed):
    specs = [{"kind": "exhaustive"}]
    specs += [{"kind": "random", "n": 1200 if tier == "quick" else 60000} for _ in range(7 if tier == "quick" else 15)]
    return specs


def call(ev, mods, aliases, extra, acc, case, alias_obj=None):
    """alias_obj: a dict object the 'user' keeps re-using over several calls; `aliases` is what the user wrote into
    it for this call (the monitor judges against that, so entries the library may have left in the object show)."""
    HUB.case = case
    kw = dict(extra)
    if aliases is not None:
        kw["aliases"] = dict(aliases)
        if alias_obj is None:
            # the alias map in whatever Mapping the caller keeps it: a defaultdict that was filled with +=, an OrderedDict,
            # a read-only view, a ChainMap of project-wide and local aliases
            import collections
            import types

            k = (len(aliases) * 7 + len(mods) * 3 + len(extra)) % 9
            if k == 1:
                kw["aliases"] = collections.defaultdict(str, aliases)
            elif k == 2:
                kw["aliases"] = collections.OrderedDict(aliases)
            elif k == 3:
                kw["aliases"] = types.MappingProxyType(dict(aliases))
            elif k == 4:
                items = list(aliases.items())
                kw["aliases"] = collections.ChainMap(dict(items[: len(items) // 2]), dict(items[len(items) // 2 :]))
            elif k in (5, 6) and aliases:
                # keys that are members of a str-mixin Enum / instances of a str subclass
                from ..drive import typed_names

                keys = list(aliases)
                kw["aliases"] = dict(zip(typed_names(keys, "enum" if k == 5 else "strsub"), [aliases[x] for x in keys]))
                acc.count("alias_maps_keyed_by_enum_members_or_str_subclass_instances")
            if k in (1, 2, 3, 4):
                acc.count("alias_maps_that_are_not_plain_dicts")
        if alias_obj is not None:
            alias_obj.update(aliases)  # the user only (re)writes their own keys in their own dict
            kw["aliases"] = alias_obj
            HUB.alias_intent = dict(aliases)
    before = acc.counters["c17_judged"]
    try:
        ev.visualize(**kw)
    except Exception:  # noqa: BLE001  (judged by the monitor)
        pass
    acc.evaluated()
    if aliases and len(mods) >= 3 and acc.counters["c17_judged"] > before:
        acc.nontrivial(case)


def run_shard(spec, acc):
    rnd = random.Random(spec["seed"])
    if spec["kind"] == "exhaustive":
        for mods in SMALL:
            ev = build(mods, [])
            for r in range(0, len(mods) + 1):
                for subset in itertools.combinations(mods, r):
                    aliases = {m: f"AL{i}" for i, m in enumerate(subset)}
                    for extra in ({}, {"spacing": 0.5}, {"node_size": 10, "with_labels": True}):
                        call(ev, mods, aliases, extra, acc, {"kind": "vis", "mods": mods, "imps": [], "aliases": aliases, "extra": extra})
            call(ev, mods, None, {"font_size": 3}, acc, {"kind": "vis", "mods": mods, "imps": [], "aliases": None, "extra": {"font_size": 3}})
        acc.flags["exhaustive_alias_subsets"] = True
        acc.sample({"modules": SMALL[0], "aliases": {"r.a": "AL0"}, "expected_labels": {"r": "r", "r.a": "AL0", "r.ab": "r.ab", "r.a.x": "AL0.x"}})
        return
    for i in range(spec["n"]):
        mods = random_tree(rnd, 4, 12, root=rnd.choice(["r", "a", "u", "b", "ab"]), names=["a", "ab", "a_b", "aa", "a0", "ba", "b", "x", "util", "u1", "a·b", "a\u093f", "\u00fcber", "a-b", "a+", "c", "c++", "a(b"])
        imps = random_imports(rnd, mods, k_max=5)
        ev = build(mods, imps)
        k = rnd.randint(0, min(4, len(mods)))
        aliased = rnd.sample(mods, k)
        if aliased and rnd.random() < 0.4:  # nested aliased modules
            d = [m for m in mods if is_ancestor(aliased[0], m)]
            if d:
                aliased.append(rnd.choice(d))
        aliases = {m: rnd.choice(ALIAS_STRINGS) + str(j) for j, m in enumerate(dict.fromkeys(aliased))}
        if len(aliases) >= 2 and rnd.random() < 0.12:
            # an alias that repeats the module's own name: still the most specific alias for everything below it
            nested_ones = [m for m in aliases if any(is_ancestor(a, m) for a in aliases)]
            k = rnd.choice(nested_ones or sorted(aliases))
            aliases[k] = k
            acc.count("identity_aliases")
        if aliases and rnd.random() < 0.1:
            aliases[rnd.choice(sorted(aliases))] = ""  # an empty alias is an alias: the name part is replaced by nothing
            acc.count("empty_string_aliases")
        r = rnd.random()
        if r < 0.08:
            real = rnd.choice(mods)
            bogus = rnd.choice([real + "x", real[:-1] or "q", "nope.mod", real + ".zz", real + "." + ".".join(f"pkg{k:02d}" for k in range(40)) + ".typo"])
            if bogus not in mods:
                aliases[bogus] = "Ghost"
        extra = {}
        if rnd.random() < 0.4:
            extra["spacing"] = rnd.choice([0.1, 1, 2.5])
        if rnd.random() < 0.5:
            extra.update(rnd.choice([{"node_size": 5}, {"with_labels": False, "arrows": True}, {"font_size": 7, "node_color": "red"}, {"ax": None}]))
        use_none = rnd.random() < 0.1
        case = {"kind": "vis", "mods": mods, "imps": imps, "aliases": None if use_none else aliases, "extra": extra}
        call(ev, mods, None if use_none else aliases, extra, acc, case)
        if aliases and not use_none and rnd.random() < 0.5:
            # the same architecture object again: same aliased modules, other alias strings
            again = {k: "Z" + v[::-1] for k, v in aliases.items()}
            call(ev, mods, again, extra, acc, dict(case, aliases=again, note="second call on the same architecture"))
            acc.count("repeated_calls_same_architecture")
        if aliases and not use_none and all(a in mods for a in aliases) and rnd.random() < 0.4:
            reuse_sequence(mods, imps, [aliases, {k: "Z" + v[::-1] for k, v in aliases.items()}], extra, acc)
        if rnd.random() < 0.3:
            variant(rnd, mods, imps, acc)
        if i % 173 == 0:
            acc.sample(case)


def reuse_sequence(mods, imps, steps, extra, acc):
    """One dict object owned by the caller is passed to several visualize calls: on the architecture, again after
    the caller rewrote the alias strings in it, and finally on a smaller architecture that still contains every
    aliased module.  Each call is judged against what the caller wrote into the dict for that call."""
    from ..refmodel.names import ancestors

    ev = build(mods, imps)
    obj: dict = {}
    for k, al in enumerate(steps):
        call(ev, mods, al, extra, acc, {"kind": "vis-reuse", "mods": mods, "imps": imps, "steps": steps, "extra": extra, "step": k}, alias_obj=obj)
    keep = sorted({m for a in steps[-1] for m in [a, *ancestors(a)]})
    if len(keep) < len(mods):
        ev2 = build(keep, [(a, b) for a, b in imps if a in keep and b in keep], check=False)
        call(ev2, keep, steps[-1], extra, acc, {"kind": "vis-reuse", "mods": mods, "imps": imps, "steps": steps, "extra": extra, "step": "smaller architecture"}, alias_obj=obj)
    acc.count("reused_alias_dict_sequences")


def variant(rnd, mods, imps, acc):
    """Architectures whose node set differs from the module list they were built from: level-limited
    graphs (deeper names do not exist) and graphs built from leaf modules only (parents are added by the
    graph itself)."""
    from ..monitors import graph_state

    if rnd.random() < 0.5:
        k = rnd.choice([1, 2])
        ev = build(mods, imps, level_limit=k, check=False)
        kind = f"level_limit={k}"
    else:
        leaves = [m for m in mods if not any(is_ancestor(m, x) for x in mods)]
        ev = build(leaves, [(a, b) for a, b in imps if a in leaves and b in leaves], check=False)
        kind = "built from leaf modules only"
    nodes = sorted(graph_state(ev)[0])
    absent = [m for m in mods if m not in nodes]
    aliases = {rnd.choice(nodes): "N0"}
    parents = [n for n in nodes if any(is_ancestor(n, x) for x in nodes)]
    if parents:
        aliases[rnd.choice(parents)] = "P1"
    if absent and rnd.random() < 0.5:
        aliases[rnd.choice(absent)] = "Gone"
    case = {"kind": "vis-variant", "mods": mods, "imps": imps, "aliases": aliases, "extra": {}, "variant": kind}
    call(ev, nodes, aliases, {}, acc, case)
    acc.count("variant_architectures")


def replay(case, acc):
    if case.get("kind") == "vis-reuse":
        return reuse_sequence(case["mods"], [tuple(i) for i in case["imps"]], case["steps"], case["extra"], acc)
    ev = build(case["mods"], [tuple(i) for i in case["imps"]])
    call(ev, case["mods"], case["aliases"], case["extra"], acc, case)


def floors(acc, tier):
    why = []
    if acc.counters["draw_backend_calls"] == 0:
        why.append("the drawing backend was never intercepted")
    for c, n in (("c17_judged", 1000), ("c17_unknown_alias_cases", 20), ("c17_spacing_cases", 100), ("c17_prefix_sibling_alias_cases", 50), ("c17_passthrough_kwargs", 100), ("repeated_calls_same_architecture", 50), ("variant_architectures", 50), ("reused_alias_dict_sequences", 50), ("empty_string_aliases", 30), ("identity_aliases", 30), ("c17_calls_with_reused_alias_object", 100), ("alias_maps_that_are_not_plain_dicts", 200)):
        if acc.counters[c] < n:
            why.append(f"{c}: only {acc.counters[c]}")
    acc.flags["exhaustive"] = bool(acc.flags.get("exhaustive_alias_subsets"))
    acc.flags["exhaustive_subspaces"] = "all alias subsets of four small trees (with prefix-sibling names) x {no option, spacing, pass-through options}"
    return why
