"""C14 - module identity follows dotted-name boundaries, never raw string prefixes.

Deciding step: offline checker over recorded outcomes: the same abstract case is executed under two
injective renamings of path components - rho1 collision-free (m0, m1, ...), rho2 adversarial (a, ab,
a_b, aa, a0, ba, ...: names that are string prefixes / substrings of each other) - through the
monitored API; outcomes (verdict, report line-sets incl. layer tags, plot labels at the drawing
backend, scan module/import sets) must be equal after mapping names back.  No reference model.
"""
from __future__ import annotations

import os
import random
import re

from .. import trees
from ..drive import build, mk_rule, random_imports, run
from ..monitors import HUB
from ..refmodel import rules as rrule
from ..refmodel.names import is_ancestor, related
from . import c05

ID = "C14"
LEVEL = "exploration"
TECHNIQUE = "offline metamorphic checker over recorded outcomes: one abstract case under a collision-free and an adversarial injective component renaming (verdicts, report lines, layer tags, labels, scans)"
LEVEL_TEXT = (
    "Held on every observed pair: renaming path components injectively - including renamings that make one sibling a string prefix or substring "
    "of another - changed no verdict, report line, layer attribution, plot label or scanned module/import set (up to the renaming itself). Covers "
    "name-based module rules with related subjects/objects and 'anything' batches, layer rules with sub-modules as violators, alias maps, and "
    "scans in include and exclude mode with module_path on the shorter of two prefix-sibling directories."
)
LEVEL_NOTE = "Metamorphic: only the renaming invariance stated in C14 is assumed. Regex specifications are excluded (renaming changes what they match)."
LEVEL_TEXT += " In scans the root directory takes part in the renaming (its new name a string prefix of module_path's package) with imports written relative to module_path's parent; adversarial names include non-word identifier characters."
RULE = "an evaluation = one API call under one renaming; a case = one abstract case under both renamings; non-trivial = the adversarial renaming produced at least one prefix/substring collision among the names the case mentions; distinct = distinct abstract cases"
ASSUMPTIONS = ["names are legal identifiers (so they can also be scanned from files)"]
SHARD_TIMEOUT = {"quick": 900, "thorough": 3000}

ABSTRACT = [f"c{i}" for i in range(8)]
ADVERSARIAL = ["a", "ab", "a_b", "aa", "a0", "ba", "abc", "b", "a_", "_a", "ab_", "aab"]
# legal identifiers that extend "a" by a character which is no regex word character (a regex word boundary is no dotted
# component boundary), and a name that sorts after every ASCII name
ADVERSARIAL += ["a·b", "a\u093f", "\u00fcb"]
# components that look like file-name parts: 'pkg.a.py' is the module 'py' inside 'pkg.a', not the file of 'pkg.a'
ADVERSARIAL += ["py", "pyi", "a_py"]
_TOKEN = re.compile(r"\bc[0-7]\b")


# module names need not be identifiers (a directory 'core-old' or 'core (copy)' next to 'core' is a module that can
# import but cannot be imported): characters that sort BELOW "." - only for driver-built graphs, never spelled in an import
NON_IDENTIFIER = ["a-old", "a (copy)", "a$x", "a+b", "a-"]


def renamings(rnd, identifiers_only=True):
    rho1 = {c: f"m{i}" for i, c in enumerate(ABSTRACT)}
    pool = ADVERSARIAL if identifiers_only else ADVERSARIAL + NON_IDENTIFIER
    names = rnd.sample(pool, len(ABSTRACT))
    if not identifiers_only and not any(n in NON_IDENTIFIER for n in names[:5]) and rnd.random() < 0.6:
        names[rnd.randint(1, 4)] = rnd.choice([n for n in NON_IDENTIFIER if n not in names])
    if "a" not in names[:4]:
        names[0] = "a" if "a" not in names else names[0]
    rho2 = dict(zip(ABSTRACT, names))
    return rho1, rho2


def ren(s: str, rho) -> str:
    return _TOKEN.sub(lambda m: rho[m.group(0)], s)


def unren_factory(rho):
    inv = {v: k for k, v in rho.items()}

    def unren_name(name: str) -> str:
        return ".".join(inv.get(p, p) for p in name.split("."))

    return unren_name


def norm_message(msg, unren, layer=False):
    """Report as name-independent structure: parsed line-sets with names mapped back (the order
    of objects inside one line follows the names and is not part of the outcome)."""
    from ..refmodel import msgparse

    if msg is None:
        return None
    try:
        if layer:
            pos, neg = msgparse.parse_layer_message(msg)
            return (
                frozenset((unren(a), la, unren(b), lb) for a, la, b, lb in pos),
                frozenset(neg),
            )
        pos, neg = msgparse.parse_module_message(msg)
        return (
            frozenset((unren(a), unren(b)) for a, b in pos),
            frozenset(((k, unren(n)), frozenset((ok, unren(on)) for ok, on in objs), flag) for (k, n), objs, flag in neg),
        )
    except msgparse.Unparseable:
        return ("raw", frozenset(re.sub(r'"([^"]+)"', lambda m: '"' + unren(m.group(1)) + '"', line) for line in msg.split("\n")))


def collisions(names):
    comps = {p for n in names for p in n.split(".")}
    return sum(1 for a in comps for b in comps if a != b and a in b)


def abstract_tree(rnd, n_min=6, n_max=11, depth=3):
    mods = ["r"]
    while len(mods) < rnd.randint(n_min, n_max):
        p = rnd.choice(mods)
        if p.count(".") >= depth:
            continue
        m = p + "." + rnd.choice(ABSTRACT)
        if m not in mods:
            mods.append(m)
    return mods


def plan(tier, seed):
    specs = [{"kind": k, "n": n if tier == "quick" else n * 25} for k, n in (("rules", 900), ("rules", 900), ("rules", 900), ("layers", 700), ("layers", 700), ("labels", 600), ("scans", 60), ("scans", 60), ("scans", 60))]
    return specs


def run_shard(spec, acc):
    rnd = random.Random(spec["seed"])
    fn = {"rules": case_rule, "layers": case_layer, "labels": case_labels, "scans": case_scan}[spec["kind"]]
    if spec["kind"] == "scans":
        internal_helper(rnd, acc)
    for i in range(spec["n"]):
        rho1, rho2 = renamings(rnd, identifiers_only=spec["kind"] == "scans")
        fn(rnd, rho1, rho2, acc, sample=(i % 151 == 0))


def internal_helper(rnd, acc, forced=None):
    """The documented helpers that decide "is this module internal" - is_internal_module(name, prefix) and
    ExternalImportFilter(True, root_module_name, ()) - called directly the way their docstrings describe (the prefix is the
    module's name, with or without a trailing dot): a module is internal iff it IS that module or extends its name by whole
    dotted components."""
    from pytestarch.eval_structure_generation.file_import import import_filter
    from pytestarch.eval_structure_generation.file_import.import_types import AbsoluteImport

    comps = ["a", "ab", "a_b", "aa", "a0", "A", "b", "app", "app_utils", "apps", "py"]
    cases = forced["cases"] if forced else []
    if not forced:
        for _ in range(300):
            depth = rnd.randint(1, 3)
            root = ".".join(rnd.choice(comps) for _ in range(depth))
            k = rnd.random()
            if k < 0.3:
                name = root + rnd.choice(comps)[:2]  # extends the last component by characters
            elif k < 0.6:
                name = root + "." + rnd.choice(comps)
            elif k < 0.7:
                name = root
            elif k < 0.85:
                name = root[:-1] if len(root) > 1 else root + "x"
            else:
                name = ".".join(rnd.choice(comps) for _ in range(rnd.randint(1, 3)))
            cases.append((name, root))
    for name, root in cases:
        want = name == root or name.startswith(root + ".")
        for prefix in (root, root + "."):
            HUB.case = {"kind": "internal-helper", "cases": [[name, root]]}
            got = import_filter.is_internal_module(name, prefix)
            acc.evaluated()
            acc.count("direct_calls_of_the_is_internal_helpers")
            if bool(got) != want:
                HUB.violation("C14", "is-internal-module:raw-prefix", f"is_internal_module({name!r}, {prefix!r}) says {got}", {"name": name, "prefix": prefix})
        kept = import_filter.ExternalImportFilter(True, root, ()).filter([AbsoluteImport(root, name)])
        acc.evaluated()
        if bool(kept) != want:
            HUB.violation("C14", "external-import-filter:raw-prefix", f"ExternalImportFilter(True, {root!r}, ()) {'keeps' if kept else 'drops'} the import of {name!r}", {"name": name, "root": root})


def compare(kind, key, o1, o2, case, acc, names2):
    acc.count(f"pairs_{kind}")
    if collisions(names2):
        acc.count(f"pairs_with_collision_{kind}")
        acc.nontrivial(case)
    if o1 != o2:
        HUB.case = case
        HUB.violation("C14", key, f"{kind}: outcome under the adversarial renaming differs from the collision-free one", {"collision_free": _js(o1), "adversarial": _js(o2), "case": case})


def _js(o):
    if isinstance(o, (frozenset, set)):
        return sorted(map(str, o))
    if isinstance(o, tuple):
        return [_js(x) for x in o]
    if isinstance(o, dict):
        return {str(k): _js(v) for k, v in o.items()}
    return o


# -- module rules -----------------------------------------------------------------------------


def case_rule(rnd, rho1, rho2, acc, sample=False, forced=None):
    if forced:
        mods, imps, cfg = forced["mods"], [tuple(i) for i in forced["imps"]], forced["cfg"]
        cfg = dict(cfg, subs=[tuple(s) for s in cfg["subs"]], objs=[tuple(o) for o in cfg["objs"]])
    else:
        mods = abstract_tree(rnd)
        imps = random_imports(rnd, mods, k_max=9)
        names = [m for m in mods if m != "r"]
        if rnd.random() < 0.015:
            # magnitudes: the same case inside a graph of 520-700 modules (numbered filler modules below existing ones)
            hosts = [m for m in mods]
            filler = [f"{rnd.choice(hosts)}.f{k}" for k in range(rnd.randint(520, 700))]
            mods = mods + sorted(set(filler) - set(mods))
            acc.count("rule_cases_in_graphs_with_500_or_more_modules")
        skind, okind = rnd.choice(["named", "named", "sub"]), rnd.choice(["named", "named", "sub"])
        subs = rnd.sample(names, min(len(names), rnd.randint(1, 3)))
        objs = rnd.sample(names, min(len(names), rnd.randint(1, 3)))
        nonid = [c for c in ABSTRACT[1:] if rho2[c] in NON_IDENTIFIER or not rho2[c].isidentifier()]
        if rnd.random() < 0.1 and rho2["c0"] == "a":
            # 'anything' over [P, a sibling of P, a sub package of P]: the sibling's adversarial name extends P's name by a
            # character that sorts below "." (a-old, a (copy)) or by a plain letter; a module below the sub package imports P
            sib = rnd.choice(nonid) if nonid and rnd.random() < 0.7 else rnd.choice(ABSTRACT[1:5])
            inner, leaf, other = [c for c in ABSTRACT[1:] if c != sib][:3]
            mods = ["r", "r.c0", f"r.c0.{inner}", f"r.c0.{inner}.{leaf}", f"r.c0.{other}", f"r.{sib}", f"r.{sib}.{leaf}"]
            d_ = rnd.choice(rrule.DIRS)
            edge = (f"r.c0.{inner}.{leaf}", "r.c0") if d_ == "import" else ("r.c0", f"r.c0.{inner}.{leaf}")
            imps = sorted({edge} | set(rnd.sample([(f"r.{sib}.{leaf}", f"r.c0.{other}"), (f"r.c0.{other}", f"r.{sib}.{leaf}"), (f"r.c0.{other}", f"r.c0.{inner}.{leaf}")], rnd.randint(0, 2))))
            members = ["r.c0", f"r.{sib}", f"r.c0.{inner}"]
            rnd.shuffle(members)
            kind_ = rnd.choice(["sub", "sub", "named"])
            cfg = {"verb": "should_not", "dir": d_, "exc": False, "subs": [(kind_, m) for m in members], "objs": [], "anything": True}
            acc.count("anything_batches_with_a_nested_pair_and_a_name_extending_sibling")
        elif rnd.random() < 0.2:
            cfg = {"verb": "should_not", "dir": rnd.choice(rrule.DIRS), "exc": False, "subs": [(skind, s) for s in subs], "objs": [], "anything": True}
        else:
            cfg = {"verb": rnd.choice(rrule.VERBS), "dir": rnd.choice(rrule.DIRS), "exc": rnd.random() < 0.5, "subs": [(skind, s) for s in subs], "objs": [(okind, o) for o in objs], "anything": False}
    case = {"kind": "rules", "mods": mods, "imps": imps, "cfg": cfg, "rho2": rho2}
    outs = []
    for rho in (rho1, rho2):
        un = unren_factory(rho)
        m2 = [ren(m, rho) for m in mods]
        i2 = [(ren(a, rho), ren(b, rho)) for a, b in imps]
        c2 = dict(cfg, subs=[(k, ren(n, rho)) for k, n in cfg["subs"]], objs=[(k, ren(n, rho)) for k, n in cfg["objs"]])
        HUB.case = case
        ev = build(m2, i2)
        o, msg = run(mk_rule(c2), ev)
        acc.evaluated()
        outs.append((o, norm_message(msg, un)))
    names2 = [ren(n, rho2) for _, n in cfg["subs"] + cfg["objs"]] + [ren(m, rho2) for m in mods]
    compare("rules", f"rule-outcome:{rrule.shape(cfg)}", outs[0], outs[1], case, acc, names2)
    if sample:
        acc.sample({"kind": "rule", "abstract_modules": mods, "imports": imps, "rule": cfg, "adversarial_renaming": rho2})


# -- layer rules -------------------------------------------------------------------------------


def case_layer(rnd, rho1, rho2, acc, sample=False, forced=None):
    if forced:
        mods, imps, layers, cfg = forced["mods"], [tuple(i) for i in forced["imps"]], forced["layers"], forced["cfg"]
    else:
        mods = abstract_tree(rnd, 8, 13, depth=3)
        tops = [m for m in mods if m.count(".") == 1]
        if len(tops) < 3:
            return
        imps = random_imports(rnd, mods, k_max=9)
        rnd.shuffle(tops)
        nl = rnd.randint(2, min(4, len(tops)))
        layers = {f"L{i}": [tops[i]] for i in range(nl)}
        for t in tops[nl:]:
            if rnd.random() < 0.5:
                layers[rnd.choice(list(layers))].append(t)
        # a layer may also list a sub module next to its parent (the lookup then has several candidates)
        for L in list(layers):
            if rnd.random() < 0.35:
                subsof = [m for m in mods if any(is_ancestor(t, m) for t in layers[L]) and m not in layers[L]]
                if subsof:
                    layers[L].append(rnd.choice(subsof))
        if rnd.random() < 0.06:
            # magnitudes: one layer lists 100-150 further (numbered) modules - and at least two sibling packages
            L = max(layers, key=lambda k: sum(1 for m in layers[k] if m in tops))
            free = [t for t in tops if not any(t in v for v in layers.values())]
            if free and sum(1 for m in layers[L] if m in tops) < 2:
                layers[L].append(free[0])
            filler = [f"r.g{k}" for k in range(rnd.randint(100, 150))]
            mods = mods + filler
            layers[L] = layers[L] + filler
            both = [m for m in layers[L] if m in tops]
            if len(both) >= 2 and rnd.random() < 0.7:
                # the two packages become prefix siblings, and an unlisted sub module of the longer-named one is
                # imported from / imports another layer
                t1, t2 = both[0], both[1]
                rho2 = dict(rho2)
                short = "a"
                longer = rnd.choice([v for v in rho2.values() if v != short and v.startswith(short)] or ["ab"])
                for comp, want in ((t1.split(".")[1], short), (t2.split(".")[1], longer)):
                    holder = [k for k, v in rho2.items() if v == want]
                    if holder:
                        rho2[holder[0]], rho2[comp] = rho2[comp], want
                    else:
                        rho2[comp] = want
                below = [m for m in mods if is_ancestor(t2, m) and m not in layers[L]]
                if not below:
                    below = [t2 + "." + rnd.choice(ABSTRACT)]
                    mods = mods + below
                outside = [m for m in mods if any(is_ancestor(t, m) or t == m for k, v in layers.items() if k != L for t in v)]
                if outside:
                    a, b = rnd.choice(below), rnd.choice(outside)
                    imps = imps + [(a, b) if rnd.random() < 0.5 else (b, a)]
                acc.count("layer_cases_with_100_or_more_listed_modules_and_prefix_sibling_packages")
            acc.count("layer_cases_with_100_or_more_listed_modules")
        prefer = None
        if rnd.random() < 0.45:
            flatten = rnd.random() < 0.6  # otherwise the same forced prefix siblings stay below the root package
            # an architecture that kept its external libraries: some packages are TOP-LEVEL modules (no dot in their
            # name), listed in layers like any other; one listed package with an unlisted sub module and one unlisted
            # top-level module become prefix siblings (a / ab) under the adversarial renaming
            in_layer = [t for t in tops if any(t in v for v in layers.values())]
            free = [t for t in tops if not any(t in v for v in layers.values())]
            if not free:
                unused = [c for c in ABSTRACT if "r." + c not in mods]
                if unused:
                    free = ["r." + rnd.choice(unused)]
                    mods = mods + free
                    tops = tops + free
            flat = set(rnd.sample(tops, rnd.randint(1, len(tops))))
            if in_layer and free and rnd.random() < 0.7:
                t1, t2 = rnd.choice(in_layer), rnd.choice(free)
                flat |= {t1, t2}
                listed = {m for v in layers.values() for m in v}
                kids = [m for m in mods if is_ancestor(t1, m) and m not in listed]
                if not kids:
                    kids = [t1 + "." + rnd.choice(ABSTRACT)]
                    mods = mods + kids
                rho2 = dict(rho2)
                cands = [v for v in rho2.values() if v != "a" and v.startswith("a")] or ["ab"]
                one_more = [v for v in cands if len(v) == 2] or ["ab"]  # the shortest possible extension of the name
                longer = rnd.choice(one_more if rnd.random() < 0.6 else cands)
                for comp, want in ((t1.split(".")[1], "a"), (t2.split(".")[1], longer)):
                    holder = [k for k, v in rho2.items() if v == want]
                    if holder:
                        rho2[holder[0]], rho2[comp] = rho2[comp], want
                    else:
                        rho2[comp] = want
                L1 = [k for k, v in layers.items() if t1 in v][0]
                outside = [m for m in mods if any(is_ancestor(t, m) or t == m for k, v in layers.items() if k != L1 for t in v)]
                kid = rnd.choice(kids)
                # the longer-named sibling has an (unlisted) sub module of its own: 'app.dbx.model' next to the listed 'app.db'
                kid2 = t2 + "." + rnd.choice(ABSTRACT)
                if kid2 not in mods:
                    mods = mods + [kid2]
                # the unlisted sub module of the listed package and the unlisted top-level module import each other
                # (access from the layer to something that is in no layer), and both deal with another layer
                imps = imps + [rnd.choice([(kid, t2), (t2, kid)])]
                for tgt in (kid, t2, kid2):
                    if outside and rnd.random() < 0.6:
                        o_ = rnd.choice(outside)
                        if not related(o_, tgt):
                            imps = imps + [(o_, tgt) if rnd.random() < 0.5 else (tgt, o_)]
                if not flatten and rnd.random() < 0.7:
                    # one level down the same again, nested: the layer lists the package AND one of its sub packages
                    # ('app' and 'app.db'); an unlisted module below a sibling whose name merely extends that sub package's
                    # name ('app.dbx.model') belongs to the package's layer
                    used = {t1.split(".")[1], t2.split(".")[1]}
                    spare = [c for c in ABSTRACT if c not in used]
                    if len(spare) >= 3:
                        cx, cy, cz = rnd.sample(spare, 3)
                        pairs_ = [("ab", "abc"), ("aa", "aab"), ("a_", "a_b"), ("ab", "ab_"), ("b", "ba")]
                        v1, v2 = rnd.choice(pairs_)
                        for comp, want in ((cx, v1), (cy, v2)):
                            holder = [k for k, v in rho2.items() if v == want]
                            if holder:
                                rho2[holder[0]], rho2[comp] = rho2[comp], want
                            else:
                                rho2[comp] = want
                        if rho2[t1.split(".")[1]] == "a" and len(set(rho2.values())) == len(rho2):
                            nested_child, deep = f"{t1}.{cx}", f"{t1}.{cy}.{cz}"
                            mods = mods + [m for m in (nested_child, f"{t1}.{cy}", deep) if m not in mods]
                            if nested_child not in {m for v in layers.values() for m in v}:
                                layers[L1] = layers[L1] + [nested_child]
                            if outside:
                                o_ = rnd.choice(outside)
                                if not related(o_, deep):
                                    imps = imps + [(o_, deep), (deep, o_)][: rnd.randint(1, 2)]
                            acc.count("layer_cases_with_a_nested_listed_pair_and_a_name_extending_sibling")
                acc.count("layer_cases_with_top_level_prefix_siblings")
                prefer = L1
            if not flatten:
                flat = set()
            fl = lambda m: m[2:] if any(m == t or m.startswith(t + ".") for t in flat) else m  # noqa: E731
            mods = [fl(m) for m in mods]
            imps = sorted({(fl(a), fl(b)) for a, b in imps})
            layers = {k: [fl(m) for m in v] for k, v in layers.items()}
            acc.count("layer_cases_with_top_level_modules")
        names = list(layers)
        rnd.shuffle(names)
        if prefer and rnd.random() < 0.8:
            # the rule is about the layer of the shorter-named package (as subject or as first object)
            names.remove(prefer)
            names.insert(rnd.choice([0, 0, 1]), prefer)
        anything = rnd.random() < 0.12
        cfg = {"verb": "should_not" if anything else rnd.choice(rrule.VERBS), "dir": rnd.choice(rrule.DIRS), "exc": rnd.random() < 0.5, "anything": anything, "subject": names[0], "objects": [] if anything else names[1 : 1 + rnd.randint(1, min(2, len(names) - 1))]}
    case = {"kind": "layers", "mods": mods, "imps": imps, "layers": layers, "cfg": cfg, "rho2": rho2}
    outs = []
    for rho in (rho1, rho2):
        un = unren_factory(rho)
        m2 = [ren(m, rho) for m in mods]
        i2 = [(ren(a, rho), ren(b, rho)) for a, b in imps]
        l2 = {k: [ren(m, rho) for m in v] for k, v in layers.items()}
        HUB.case = case
        ev = build(m2, i2)
        try:
            arch = c05.make_arch(l2, {k: "named" for k in l2}, False)
            rule = c05.make_rule(arch, cfg, False)
            o, msg = run(rule, ev)
        except Exception as e:  # noqa: BLE001
            o, msg = f"builder-error:{type(e).__name__}", None
        acc.evaluated()
        outs.append((o, norm_message(msg, un, layer=True)))
    names2 = [ren(m, rho2) for m in mods]
    compare("layers", f"layer-outcome:{cfg['verb']}/{cfg['dir']}", outs[0], outs[1], case, acc, names2)
    if sample:
        acc.sample({"kind": "layer rule", "abstract_modules": mods, "imports": imps, "layers": layers, "rule": cfg, "adversarial_renaming": rho2})


# -- plot labels ---------------------------------------------------------------------------------


def case_labels(rnd, rho1, rho2, acc, sample=False, forced=None):
    if forced:
        mods, aliased = forced["mods"], forced["aliased"]
    else:
        mods = abstract_tree(rnd, 5, 11)
        if rnd.random() < 0.6:
            # the root component takes part in the renaming as well (its name may then recur inside deeper components)
            root = rnd.choice(ABSTRACT)
            mods = [root + m[1:] for m in mods]
        aliased = rnd.sample(mods, rnd.randint(1, min(4, len(mods))))
    case = {"kind": "labels", "mods": mods, "aliased": aliased, "rho2": rho2}
    outs = []
    for rho in (rho1, rho2):
        un = unren_factory(rho)
        m2 = [ren(m, rho) for m in mods]
        aliases = {ren(m, rho): f"ALIAS{i}" for i, m in enumerate(aliased)}
        HUB.case = case
        ev = build(m2, [])
        n0 = len(HUB.draw_calls)
        try:
            ev.visualize(aliases=aliases)
            labels = HUB.draw_calls[n0]["kwargs"].get("labels") if len(HUB.draw_calls) > n0 else None
        except Exception as e:  # noqa: BLE001
            labels = {"error": type(e).__name__}
        acc.evaluated()
        norm = {}
        for k, v in (labels or {}).items():
            mm = re.match(r"(ALIAS\d+)(.*)$", str(v))
            norm[un(k)] = (mm.group(1), un("x" + mm.group(2))[1:]) if mm else ("", un(str(v)))
        outs.append(norm)
    compare("labels", "plot-labels", outs[0], outs[1], case, acc, [ren(m, rho2) for m in mods])
    if sample:
        acc.sample({"kind": "labels", "abstract_modules": mods, "aliased": aliased, "adversarial_renaming": rho2})


# -- scans --------------------------------------------------------------------------------------------


def case_scan(rnd, rho1, rho2, acc, sample=False, forced=None):
    from pytestarch import get_evaluable_architecture

    if forced:
        spec, mp_rel, include = forced["spec"], forced["mp"], forced["include"]
    else:
        if rnd.random() < 0.5:
            # the root directory takes part in the renaming (its name may become a string prefix of a package name) and
            # some imports are written relative to module_path's parent directory
            spec = trees.random_project(rnd, root="c7", depth=3, names=ABSTRACT[:7], imports_per_file=(1, 3), extras=False)
        else:
            spec = trees.random_project(rnd, depth=3, names=ABSTRACT, imports_per_file=(1, 3), extras=False)
        files = sorted(spec["files"])
        for f in files:
            if rnd.random() < 0.4:
                ext = rnd.choice(["c1.c2", "c3", "proj_c1.c4", "c5.c6.c7"])
                spec["files"][f] = f"import {ext}\n" + spec["files"][f]
        dirs = [d for d in trees.all_dirs(spec) if d]
        mp_rel = rnd.choice(dirs) if dirs and rnd.random() < 0.6 else ""
        if spec["root"] != "proj" and mp_rel:
            acc.count("scan_pairs_with_renamed_root_and_parent_relative_imports", 1 if trees.relativise(spec, mp_rel, rnd, prob=0.8) else 0)
            # adversarial on purpose: the root's new name is a string prefix of the new name of module_path's top package
            rho2 = dict(rho2)
            top = mp_rel.split("/")[0]

            def give(token, wanted):
                for k, v in list(rho2.items()):
                    if v in wanted and k != token:
                        rho2[k], rho2[token] = rho2[token], v
                        return True
                return rho2[token] in wanted

            if give("c7", ["a"]) or True:
                if rho2["c7"] != "a":
                    old = rho2["c7"]
                    rho2["c7"] = "a"
                    for k, v in rho2.items():
                        if v == "a" and k != "c7":
                            rho2[k] = old
                give(top, ["ab", "a_b", "aa", "a0", "abc", "a_", "aab", "ab_"]) or rho2.__setitem__(top, "ab" if "ab" not in rho2.values() else rho2[top])
        include = rnd.random() < 0.5
    case = {"kind": "scans", "spec": spec, "mp": mp_rel, "include": include, "rho2": rho2}
    outs = []
    for rho in (rho1, rho2):
        un = unren_factory(rho)
        s2 = {"root": ren(spec.get("root", "proj"), rho), "dirs": [ren(d, rho) for d in spec.get("dirs", [])], "files": {ren(k, rho): ren(v, rho) for k, v in spec["files"].items()}}
        root = trees.write_tree(s2)
        try:
            HUB.case = case
            mp = os.path.join(root, ren(mp_rel, rho)) if mp_rel else root
            try:
                get_evaluable_architecture(root, mp, exclude_external_libraries=not include)
                se = HUB.scan_events[-1]
                outs.append((frozenset(un(n) for n in se.nodes), frozenset((un(a), un(b)) for a, b in se.imps)))
            except Exception as e:  # noqa: BLE001
                outs.append(("error", type(e).__name__))
            acc.evaluated()
        finally:
            trees.remove_tree(root)
    names2 = [ren(d, rho2) for d in trees.all_dirs(spec)] + [ren(f[:-3], rho2) for f in spec["files"] if f.endswith(".py")]
    names2 = [n.replace("/", ".") for n in names2 if n]
    compare("scans", f"scan:{'include' if include else 'exclude'}", outs[0], outs[1], case, acc, names2)
    if mp_rel:
        acc.count("scan_pairs_with_module_path_below_root")
    if sample:
        acc.sample({"kind": "scan", "files": sorted(spec["files"])[:8], "module_path": mp_rel or ".", "include_externals": include, "adversarial_renaming": rho2})


def replay(case, acc):
    if case.get("kind") == "internal-helper":
        return internal_helper(random.Random(0), acc, forced=case)
    rnd = random.Random(0)
    rho1 = {c: f"m{i}" for i, c in enumerate(ABSTRACT)}
    rho2 = case["rho2"]
    {"rules": case_rule, "layers": case_layer, "labels": case_labels, "scans": case_scan}[case["kind"]](rnd, rho1, rho2, acc, forced=case)


def floors(acc, tier):
    why = []
    for k, n in (("rules", 500), ("layers", 300), ("labels", 200), ("scans", 30)):
        if acc.counters[f"pairs_with_collision_{k}"] < n:
            why.append(f"pairs with a prefix/substring collision for {k}: only {acc.counters[f'pairs_with_collision_{k}']}")
    if acc.counters["anything_batches_with_a_nested_pair_and_a_name_extending_sibling"] < 30:
        why.append("too few 'anything' batches over a nested pair plus a sibling whose name extends the parent's")
    if acc.counters["layer_cases_with_a_nested_listed_pair_and_a_name_extending_sibling"] < 20:
        why.append(f"only {acc.counters['layer_cases_with_a_nested_listed_pair_and_a_name_extending_sibling']} layer cases with a nested listed pair and a name-extending sibling")
    if acc.counters["layer_cases_with_top_level_prefix_siblings"] < 40:
        why.append(f"only {acc.counters['layer_cases_with_top_level_prefix_siblings']} layer cases with top-level prefix siblings")
    if acc.counters["scan_pairs_with_module_path_below_root"] < 10:
        why.append("too few scan pairs with module_path below root")
    return why
