"""C10 - external-library options affect only external modules, never internal ones.

Deciding steps: online R-SCAN post-condition per configuration (exclude mode: no module outside
module_path; include mode: required externals, their ancestors and imports present, pattern-matched
ones absent) + hierarchy invariant, and an offline checker grouping the scan events of one tree:
internal modules and internal imports must be identical in every configuration.
"""
from __future__ import annotations

import os
import random
import re

from .. import trees
from ..monitors import HUB
from ..monitors_more import attribute_scan_findings
from ..refmodel import glob as rglob
from ..refmodel import scan as rscan
from ..refmodel.names import ancestors, is_ancestor

ID = "C10"
LEVEL = "exploration"
TECHNIQUE = "online R-SCAN external-side post-condition + hierarchy hook per configuration; offline checker over the scan events of one tree (internal side identical across {exclude, include} x pattern tuples)"
LEVEL_TEXT = (
    "Held on every observed tree: across exclude / include / include+glob patterns / include+regex patterns the internal modules and internal "
    "imports were identical; in exclude mode no module outside module_path existed; in include mode every retained external, its ancestors and "
    "its import were present and every pattern-matched external (or one with a matching ancestor) was absent. Patterns deliberately include "
    "fragments that also match internal module names."
)
LEVEL_NOTE = "Internal = module_path's own name, anything below it, and its ancestors (component-wise). External side is checked as 'required present / excluded absent'; further external nodes are only counted."
LEVEL_TEXT += " Projects with 1000-3000 import statements are part of every run. Include-mode scans with a FILE exclusion built from an imported external's name. Extra shards scan random projects (a quarter of them wide and deep) under independently drawn options - file exclusions, level limit, kept externals with external exclusions, module_path below the root, module-object entry point - judged by the same deciding steps."
RULE = (
    "an evaluation = one scan in one configuration; a case = one tree with all its configurations; non-trivial = the tree has external imports and "
    "at least one pattern matched an external or an internal name; distinct = distinct (tree digest, configuration)"
)
ASSUMPTIONS = [
    "a relative or absolute from-import whose target lies outside module_path may name P or P.n (nobody scanned it)",
    "level_limit is not combined with include mode here",
]
SHARD_TIMEOUT = {"quick": 900, "thorough": 3000}

EXT_POOL = trees.EXTERNALS + ["dup.dup", "twice.twice.x", "projx.y", "proj_other.z", "projection", "handlers", "myhandlers.sub", "h", "a.handlers", "xproj.h"]


def plan(tier, seed):
    shards = [{"kind": "trees", "n": 40 if tier == "quick" else 1500} for _ in range(10 if tier == "quick" else 16)]
    # projects with 1000+ import statements in total (size-gated code paths of the import filter / graph generator)
    shards += [{"kind": "big", "n": 3 if tier == "quick" else 40} for _ in range(2 if tier == "quick" else 4)]
    return shards


def run_shard(spec, acc):
    rnd = random.Random(spec["seed"])
    for i in range(spec["n"]):
        tspec = gen(rnd, big=spec.get("kind") == "big")
        one_tree(tspec, acc, rnd, sample=(i % 7 == 0))


def gen(rnd, big=False):
    spec = trees.random_project(rnd, depth=rnd.choice([2, 3, 4]), imports_per_file=(0, 3), externals=0.0, dangling=0.0, name_imports=0.25)
    files = sorted(f for f in spec["files"] if f.endswith(".py"))
    if big:
        # 1000-3000 import statements in one project: many files importing the same few internal and external modules
        mods = [trees.mod_of("proj", f) for f in files]
        mods = [m for m in mods if all(p.isidentifier() for p in m.split("."))]
        total = rnd.randint(1050, 3000)
        per = total // max(1, len(files)) + 1
        for f in files:
            me = trees.mod_of("proj", f)
            cands = [m for m in mods if m != me and not me.startswith(m + ".")] or ["proj"]
            lines = []
            for _ in range(per):
                if rnd.random() < 0.6:
                    lines.append("import " + rnd.choice(cands))
                else:
                    e = rnd.choice(EXT_POOL)
                    lines.append(f"import {e}" if "." not in e or rnd.random() < 0.6 else "from {} import {}".format(*e.rpartition(".")[::2]))
            spec["files"][f] = spec["files"][f] + "\n".join(lines) + "\n"
        spec["_big"] = per * len(files)
    for f in files:
        extra = []
        for _ in range(rnd.randint(0, 3)):
            r = rnd.random()
            if r < 0.55:
                e = rnd.choice(EXT_POOL)
                if "." in e and rnd.random() < 0.4:
                    p, _, leaf = e.rpartition(".")
                    extra.append(f"from {p} import {leaf}")
                elif rnd.random() < 0.2:
                    extra.append(f"from {e} import thing")
                else:
                    extra.append(f"import {e}")
            elif r < 0.7:
                extra.append(f"import proj.missing{rnd.randint(0, 2)}")
            elif r < 0.8:
                extra.append("from . import not_a_module")
            elif r < 0.9 and f.count("/") >= 1:
                extra.append("from .. import also_not_a_module")
            else:
                extra.append(f"from proj.{rnd.choice(['nope', 'gone.deep'])} import x")
        spec["files"][f] = "\n".join(extra) + "\n" + spec["files"][f]
    # a package next to a sibling whose name merely starts with the same characters (a / ab, handlers / handlers_x):
    # scanned as module_path, the sibling it imports is a module OUTSIDE module_path
    dirs = [d for d in trees.all_dirs(spec) if d]
    pairs = [(d1, d2) for d1 in dirs for d2 in dirs if d1 != d2 and os.path.dirname(d1) == os.path.dirname(d2) and os.path.basename(d2).startswith(os.path.basename(d1))]
    if not pairs and dirs and rnd.random() < 0.5:
        d1 = rnd.choice(dirs)
        import keyword

        d2 = d1 + rnd.choice(["_x", "s", "b"])
        if not keyword.iskeyword(os.path.basename(d2)) and d2 not in dirs:
            spec["files"][d2 + "/__init__.py"] = "helper = 1\n"
            spec["files"][d2 + "/deep.py"] = "helper = 1\n"
            pairs = [(d1, d2)]
    if pairs and rnd.random() < 0.6:
        d1, d2 = rnd.choice(pairs)
        inside = sorted(f for f in spec["files"] if f.startswith(d1 + "/") and f.endswith(".py"))
        if not inside:
            spec["files"][d1 + "/user.py"] = "x = 1\n"
            inside = [d1 + "/user.py"]
        target = trees.mod_of("proj", d2)
        f = rnd.choice(inside)
        spec["files"][f] = rnd.choice([f"import {target}", f"from {target} import helper", f"import {target}.deep"]) + "\n" + spec["files"][f]
        spec["_mp_hint"] = d1
    return spec


def gen_ext_patterns(rnd, externals_seen, internal_names):
    pats = []
    for _ in range(rnd.randint(1, 3)):
        r = rnd.random()
        if r < 0.5 and externals_seen:
            e = rnd.choice(sorted(externals_seen))
            sh = rnd.choice(["exact", "anc", "prefix*", "*suffix", "*mid*"])
            if sh == "exact":
                pats.append(e)
            elif sh == "anc":
                pats.append(e.split(".")[0])
            elif sh == "prefix*":
                pats.append(e[: max(1, len(e) // 2)] + "*")
            elif sh == "*suffix":
                pats.append("*" + e[len(e) // 2 :])
            else:
                pats.append("*" + e[1:-1] + "*")
        else:
            # deliberately also matching internal names
            n = rnd.choice(sorted(internal_names))
            leaf = n.rsplit(".", 1)[-1]
            pats.append(rnd.choice(["*" + leaf, "*." + leaf, "proj*", "*" + leaf + "*", n, "*handlers", "*.h", "*" + leaf[-1:]]))
    return pats


def one_tree(tspec, acc, rnd, sample=False, forced=None):
    from pytestarch import get_evaluable_architecture

    root = trees.write_tree(tspec)
    try:
        dirs = trees.all_dirs(tspec)
        hint = tspec.pop("_mp_hint", None)
        big = tspec.pop("_big", 0) >= 1000
        mp_rel = forced["mp"] if forced else (hint if hint and rnd.random() < 0.7 else rnd.choice(dirs) if rnd.random() < 0.35 else "")
        if big and not forced:
            mp_rel = ""
        if big and not mp_rel:
            acc.count("trees_with_1000+_import_statements")
        if hint and mp_rel == hint:
            acc.count("module_path_with_imported_prefix_sibling")
        mp_abs = os.path.join(root, mp_rel) if mp_rel else root
        mpname = trees.mod_of("proj", mp_rel)
        internal = lambda n: rscan.is_internal_name(mpname, n)  # noqa: E731
        # imports of module_path's ancestors are dependencies to modules outside module_path, i.e. external ones
        below = lambda n: n == mpname or is_ancestor(mpname, n)  # noqa: E731

        def scan(label, **kw):
            case = {"kind": "config", "spec": tspec, "mp": mp_rel, "label": label, "kw": {k: list(v) if isinstance(v, tuple) else v for k, v in kw.items()}}
            HUB.case = case
            get_evaluable_architecture(root, mp_abs, **kw)
            acc.evaluated()
            acc.nontrivial({"t": tspec, "mp": mp_rel, "c": case["kw"]})
            return HUB.scan_events[-1], case

        base, bcase = scan("exclude")
        attribute_scan_findings(base, {"external": "C10"}, bcase)
        inc, icase = scan("include", exclude_external_libraries=False)
        # the same include-mode request with root_path / module_path spelled relative to the working directory (a
        # conftest.py run from the project's parent): the external side does not depend on how the directories are spelled
        cwd = os.getcwd()
        rcase = {"kind": "config", "spec": tspec, "mp": mp_rel, "label": "include:relative-paths", "kw": {"exclude_external_libraries": False}, "relative_paths": True}
        try:
            os.chdir(os.path.dirname(root))
            HUB.case = rcase
            get_evaluable_architecture(os.path.basename(root), os.path.join(os.path.basename(root), mp_rel) if mp_rel else os.path.basename(root), exclude_external_libraries=False)
            rel = HUB.scan_events[-1]
        finally:
            os.chdir(cwd)
        acc.evaluated()
        # ... and as pathlib.Path objects with a '..' component (Path(__file__).parent / ".." / "proj")
        from pathlib import Path

        pcase = dict(rcase, label="include:pathlib-dotdot", relative_paths=False, pathlib_dotdot=True)
        HUB.case = pcase
        try:
            get_evaluable_architecture(Path(root) / os.pardir / os.path.basename(root), (Path(mp_abs) / os.pardir / os.path.basename(mp_abs)) if mp_rel else Path(root), exclude_external_libraries=False)
            pth = HUB.scan_events[-1]
            attribute_scan_findings(pth, {"external": "C10", "hierarchy": "C10"}, pcase)
            if pth.state != inc.state:
                HUB.violation("C10", "external-modules-depend-on-the-spelling-of-root_path", "include-mode scans of the same directories, spelled as strings and as pathlib.Path objects with a '..' component, differ", {"mp": mp_rel, "nodes_diff": sorted(inc.nodes ^ pth.nodes)[:12], "imports_diff": sorted(inc.imps ^ pth.imps)[:12]})
        except Exception as e:  # noqa: BLE001
            HUB.violation("C10", f"include-scan-with-path-objects-raises-{type(e).__name__}", f"an include-mode scan with pathlib.Path arguments raised {e}", {"mp": mp_rel})
        acc.evaluated()
        acc.count("include_scans_with_relative_paths")
        attribute_scan_findings(rel, {"external": "C10", "hierarchy": "C10"}, rcase)
        if rel.state != inc.state:
            HUB.violation("C10", "external-modules-depend-on-the-spelling-of-root_path", "include-mode scans of the same directories, spelled as absolute paths and relative to the working directory, differ", {"mp": mp_rel, "nodes_only_with_absolute_paths": sorted(inc.nodes - rel.nodes)[:12], "nodes_only_with_relative_paths": sorted(rel.nodes - inc.nodes)[:12], "imports_diff": sorted(inc.imps ^ rel.imps)[:12]})
        externals_seen = {n for n in inc.nodes if not internal(n)}
        internal_names = {n for n in base.nodes if "." in n} or {"proj"}
        configs = [(inc, icase)]
        rounds = forced["rounds"] if forced else None
        for r in range(len(rounds) if rounds else 3):
            if rounds:
                use_regex, pats = rounds[r]
            else:
                use_regex = rnd.random() < 0.4
                pats = gen_ext_patterns(rnd, externals_seen, internal_names)
                if use_regex:
                    pats = [rglob.to_regex(p) for p in pats]
                    if rnd.random() < 0.35:
                        # hand-written regexes: a back-reference to the pattern's own first group / an inline flag
                        pats = rnd.choice([[r"(json|sys)$", r"(\w+)\.\1(\..*)?$"], [r"(?i)OS(\..*)?$", r"Json$"], [r"(xml)\.etree", r"(\w+)\.\1$", r"(logging)\.handlers$"]])
                        acc.count("external_regexes_with_flags_or_backreferences")
            kw = {"exclude_external_libraries": False}
            kw["regex_external_exclusions" if use_regex else "external_exclusions"] = tuple(pats)
            if rnd.random() < 0.4:
                # the other option of the pair explicitly empty: "no patterns of that kind", the same as leaving it out
                kw["external_exclusions" if use_regex else "regex_external_exclusions"] = ()
                acc.count("configs_with_the_other_pattern_option_empty")
            se, case = scan("include+regex" if use_regex else "include+glob", **kw)
            case["round"] = [use_regex, list(pats)]
            configs.append((se, case))
            if rnd.random() < 0.5 or rounds:
                # the same external patterns as a one-shot iterable: the same architecture (if one is built at all)
                form = rnd.choice(["generator", "map", "list"])
                kw2 = dict(kw)
                kw2["regex_external_exclusions" if use_regex else "external_exclusions"] = (p_ for p_ in pats) if form == "generator" else map(str, pats) if form == "map" else list(pats)
                try:
                    get_evaluable_architecture(root, mp_abs, **kw2)
                    alt = HUB.scan_events[-1]
                    acc.evaluated()
                    acc.count("scans_with_external_patterns_in_another_container")
                    if alt.state != se.state:
                        HUB.case = case
                        HUB.violation("C10", f"external-patterns-as-{form}-differ-from-tuple", f"the same external exclusion patterns given as a {form} build another architecture than given as a tuple", {"kw": case["kw"], "nodes_diff": sorted(alt.nodes ^ se.nodes)[:12], "imports_diff": sorted(alt.imps ^ se.imps)[:12]})
                except Exception as e:  # noqa: BLE001  (no architecture, no claim)
                    acc.hist("pattern_container_rejected", f"{form}:{type(e).__name__}")
            matcher = (lambda p, s: re.match(p, s) is not None) if use_regex else rglob.matches
            if any(matcher(p, n) for p in pats for n in internal_names):
                acc.count("patterns_matching_internal_names")
            if any(matcher(p, n) for p in pats for n in externals_seen):
                acc.count("patterns_matching_externals")
        bi = {n for n in base.nodes if internal(n)}
        bimps = {(a, b) for a, b in base.imps if below(a) and below(b)}
        for se, case in configs:
            HUB.case = case
            attribute_scan_findings(se, {"external": "C10", "hierarchy": "C10"}, case)
            gi = {n for n in se.nodes if internal(n)}
            gimps = {(a, b) for a, b in se.imps if below(a) and below(b)}
            acc.count("config_comparisons")
            if gi != bi:
                added, removed = sorted(gi - bi), sorted(bi - gi)
                key = "internal-modules-removed-by-external-options" if removed else "internal-modules-added-by-external-options"
                HUB.violation("C10", key, f"internal modules differ between the default configuration and {case['label']}", {"label": case["label"], "kw": case["kw"], "added": added, "removed": removed})
            if gimps != bimps:
                HUB.violation("C10", "internal-imports-changed-by-external-options", f"imports among internal modules differ between the default configuration and {case['label']}", {"label": case["label"], "kw": case["kw"], "added": sorted(gimps - bimps), "removed": sorted(bimps - gimps)})
            ext = {n for n in se.nodes if not internal(n)}
            acc.count("external_nodes_seen", len(ext))
            acc.count("nested_external_nodes", sum(1 for n in ext if "." in n))
            if se.model is not None:
                ex = rscan.expect(se.model, False, None, se.args["_ext_globs"], se.args["_ext_regexes"])
                explained = set()
                for _w, alts in ex.ext_required_nodes:
                    explained |= alts
                acc.count("unexplained_external_nodes", len(ext - explained))
        # file exclusion patterns are about files: one that textually matches the NAME of an imported external module
        # must not remove that module (only external exclusion patterns may)
        if externals_seen and (forced is None or forced.get("file_excl")):
            e = rnd.choice(sorted(externals_seen)) if forced is None else forced["file_excl"][0].strip("*")
            px = ("*" + e.split(".")[-1] + "*",) if forced is None else tuple(forced["file_excl"])
            bx, bxc = scan("exclude+file-exclusion", exclusions=px)
            ix, ixc = scan("include+file-exclusion", exclude_external_libraries=False, exclusions=px)
            ixc["file_excl"] = list(px)
            HUB.case = ixc
            attribute_scan_findings(ix, {"external": "C10", "hierarchy": "C10"}, ixc)
            acc.count("include_scans_with_file_exclusion_matching_an_external_name")
            gi, bi2 = {n for n in ix.nodes if internal(n)}, {n for n in bx.nodes if internal(n)}
            if gi != bi2:
                HUB.violation("C10", "internal-modules-changed-by-external-options", "internal modules differ between exclude and include mode under the same file exclusion", {"file_exclusions": list(px), "added": sorted(gi - bi2), "removed": sorted(bi2 - gi)})
        # one project-wide pattern tuple (IGNORED = ("*vendor",)) handed to the file exclusions AND to the external
        # exclusions, in one call and in calls that follow each other: as an external exclusion it keeps its meaning (the
        # matching external module and everything below it disappear) whatever the same tuple was used for before
        nested = sorted(n for n in externals_seen if "." in n)
        if nested and (forced is None or forced.get("shared")):
            if forced is None:
                anc = rnd.choice(nested).split(".")[0]
                shared = (rnd.choice([anc, "*" + anc, "*" + anc[1:]]),) + ((rnd.choice(["*__pycache__", "*.tox"]),) if rnd.random() < 0.5 else ())
                order = rnd.sample(["ext", "file", "both", "ext"], 4)
            else:
                shared, order = tuple(forced["shared"][0]), forced["shared"][1]
            seen = {}
            for step in order:
                kw = {"ext": {"exclude_external_libraries": False, "external_exclusions": shared}, "file": {"exclusions": shared}, "both": {"exclude_external_libraries": False, "external_exclusions": shared, "exclusions": shared}}[step]
                se, case = scan("shared-pattern-tuple:" + step, **kw)
                case["shared"] = [list(shared), order]
                HUB.case = case
                if step != "file":
                    attribute_scan_findings(se, {"external": "C10", "hierarchy": "C10"}, case)
                if step in seen and seen[step].state != se.state:
                    HUB.violation("C10", "external-exclusions-depend-on-earlier-scans", "the same include-mode request gave another architecture after the same pattern tuple had been used as file exclusions", {"patterns": list(shared), "order": order, "nodes_diff": sorted(seen[step].nodes ^ se.nodes)[:12], "imports_diff": sorted(seen[step].imps ^ se.imps)[:12]})
                seen[step] = se
            acc.count("pattern_tuples_used_as_file_and_as_external_exclusions")
        acc.count("trees")
        if sample:
            acc.sample({"files": {k: v for k, v in list(tspec["files"].items())[:3]}, "module_path": mp_rel or ".", "configs": [c["kw"] for _s, c in configs], "externals_in_include_mode": sorted(externals_seen)[:10]})
    finally:
        trees.remove_tree(root)


def replay(case, acc):
    rounds = [tuple(case["round"])] if case.get("round") else []
    one_tree(case["spec"], acc, random.Random(0), forced={"mp": case["mp"], "rounds": rounds, "file_excl": case.get("file_excl"), "shared": case.get("shared")})


def floors(acc, tier):
    why = []
    for c, n in (("config_comparisons", 200), ("patterns_matching_internal_names", 20), ("patterns_matching_externals", 20), ("nested_external_nodes", 50), ("include_scans_with_file_exclusion_matching_an_external_name", 50), ("module_path_with_imported_prefix_sibling", 30), ("trees_with_1000+_import_statements", 4), ("scans_with_external_patterns_in_another_container", 50), ("pattern_tuples_used_as_file_and_as_external_exclusions", 50), ("include_scans_with_relative_paths", 100)):
        if acc.counters[c] < n:
            why.append(f"{c}: only {acc.counters[c]}")
    if acc.counters["scan_model_errors"]:
        why.append("reference scanner crashed")
    return why
