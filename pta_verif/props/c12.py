"""C12 - rule algebra: duality, negation, decomposition, alias and monotonicity laws.

Deciding step: offline checker over the event log recorded by the Rule.assert_applies
monitor.  The driver evaluates, per (graph, subject, object), the whole family of rules so that
every law has its operands in the log (each tagged); no reference model is involved, so related
(ancestor/descendant) subjects and objects are in scope.
"""
from __future__ import annotations

import random

from ..drive import build, candidate_imports, mk_rule, random_imports, random_tree, run
from ..monitors import HUB
from ..refmodel import rules as rrule
from ..refmodel.names import close_under_ancestors, is_ancestor, related
from . import c01

ID = "C12"
LEVEL = "exploration"
TECHNIQUE = "offline law checker over the recorded event log of Rule.assert_applies outcomes (metamorphic relations between 2-3 executions)"
LEVEL_TEXT = (
    "Held on every observed family: for each (graph, subject, object) all 12 rule shapes, their swapped-direction twins, the "
    "aliases and the same rules after one added import are evaluated through the monitored boundary and the recorded verdict "
    "tuples are checked against the five laws. Complete over all relations of tree T1 for all subject/object pairs; sampled on larger graphs."
)
LEVEL_NOTE = "No reference model: only the laws stated in the property are assumed. Parent->direct-child imports are not generated."
LEVEL_TEXT += ' Regex families are also evaluated with rule objects that first saw a smaller architecture.'
RULE = (
    "an evaluation = one Rule.assert_applies; a case = one family (graph, subject filter, object filter); non-trivial = family on a "
    "non-empty import relation in which at least one rule passed and one failed; distinct = distinct (tree, relation, subject, object)"
)
ASSUMPTIONS = [
    "laws are checked on verdicts exactly as stated in C12; any exception other than AssertionError inside a family is a violation",
    "monotonicity additions are imports between modules unrelated in the hierarchy that were not present before",
]
SHARD_TIMEOUT = {"quick": 900, "thorough": 3000}


def cfg_of(verb, d, exc, s, o):
    return {"verb": verb, "dir": d, "exc": exc, "subs": [s], "objs": [o], "anything": False}


def family_labels():
    labs = []
    for verb in rrule.VERBS:
        for d in rrule.DIRS:
            for exc in (False, True):
                labs.append((verb, d, exc))
    return labs


def eval_family(ev, mods, imps, s, o, acc, tagbase):
    """Runs the family through the boundary; returns {label: outcome} read back from the log."""
    start = len(HUB.log)
    HUB.keep_log = True
    todo = []
    for verb, d, exc in family_labels():
        todo.append((("so", verb, d, exc), cfg_of(verb, d, exc, s, o)))
    for verb in ("should", "should_not"):
        for d in rrule.DIRS:
            todo.append((("os", verb, d, False), cfg_of(verb, d, False, o, s)))
    for d in rrule.DIRS:
        todo.append((("any", d), {"verb": "should_not", "dir": d, "exc": False, "subs": [s], "objs": [], "anything": True}))
        todo.append((("self", d), cfg_of("should_not", d, True, s, s)))
    decoys = [m for m in mods if "." in m and m not in (s[1], o[1])]
    for i, (label, cfg) in enumerate(todo):
        HUB.tag = (tagbase, label)
        HUB.case = {"kind": "family", "mods": mods, "imps": imps, "s": s, "o": o}
        # every third rule of a family is built by re-targeting a kept, already applied rule prefix
        rt = (ev, decoys[i % len(decoys)]) if decoys and (i + len(mods)) % 3 == 0 else None
        # ... and every third one is finished on a deep copy / an unpickled copy of a kept prefix (the original gets a decoy)
        cp = (("deepcopy", "pickle")[i % 2], decoys[(i + 1) % len(decoys)]) if decoys and rt is None and (i + len(mods)) % 3 == 1 else None
        run(mk_rule(cfg, retarget=rt, copied=cp), ev)
        acc.evaluated()
    HUB.tag = None
    out = {}
    for e in HUB.log[start:]:
        t = e.extra.get("tag")
        if t and t[0] == tagbase and e.cfg["default_matcher"]:
            out[t[1]] = (e.outcome, e.exc_type)
    del HUB.log[start:]
    return out


def check_family(out, mods, imps, s, o, acc):
    case = {"kind": "family", "mods": mods, "imps": imps, "s": s, "o": o}
    HUB.case = case

    def v(*label):
        return out[label][0]

    errs = {k: v2 for k, v2 in out.items() if v2[0] == "error"}
    if errs:
        k = sorted(errs, key=str)[0]
        HUB.violation("C12", f"exception:{errs[k][1]}", f"rule {k} raised {errs[k][1]} instead of giving a verdict", {"case": case, "errors": {str(a): b for a, b in errs.items()}})
        return
    w = {"case": case, "outcomes": {str(k): val[0] for k, val in out.items()}}
    for verb in ("should", "should_not"):
        acc.count("law_duality", 2)
        if v("so", verb, "import", False) != v("os", verb, "be", False):
            HUB.violation("C12", f"duality:{verb}", f"'S {verb} import O' and 'O {verb} be imported by S' differ", w)
        if v("so", verb, "be", False) != v("os", verb, "import", False):
            HUB.violation("C12", f"duality:{verb}", f"'S {verb} be imported by O' and 'O {verb} import S' differ", w)
    for d in rrule.DIRS:
        for exc in (False, True):
            acc.count("law_negation")
            if (v("so", "should", d, exc) == "pass") == (v("so", "should_not", d, exc) == "pass"):
                HUB.violation("C12", f"negation:{d}:{'except' if exc else 'plain'}", "'should' and 'should not' agree on one subject/object", w)
        acc.count("law_decomposition", 2)
        if (v("so", "should_only", d, False) == "pass") != (v("so", "should", d, False) == "pass" and v("so", "should_not", d, True) == "pass"):
            HUB.violation("C12", f"decomposition:should_only:{d}", "'should only' differs from 'should' and 'should not ... except'", w)
        if (v("so", "should_only", d, True) == "pass") != (v("so", "should", d, True) == "pass" and v("so", "should_not", d, False) == "pass"):
            HUB.violation("C12", f"decomposition:should_only_except:{d}", "'should only ... except' differs from 'should ... except' and 'should not'", w)
        acc.count("law_alias")
        if v("any", d) != v("self", d):
            HUB.violation("C12", f"alias:{d}", "'should not ... anything' differs from 'should not ... except itself'", w)


MONO = [("should", False), ("should", True), ("should_not", False), ("should_not", True)]


def eval_mono(ev, s, o, tagbase, acc):
    start = len(HUB.log)
    HUB.keep_log = True
    for verb, exc in MONO:
        for d in rrule.DIRS:
            HUB.tag = (tagbase, (verb, d, exc))
            run(mk_rule(cfg_of(verb, d, exc, s, o)), ev)
            acc.evaluated()
    HUB.tag = None
    out = {e.extra["tag"][1]: e.outcome for e in HUB.log[start:] if e.extra.get("tag") and e.extra["tag"][0] == tagbase}
    del HUB.log[start:]
    return out


def check_mono(base, plus, mods, imps, added, s, o, acc):
    for verb, exc in MONO:
        for d in rrule.DIRS:
            acc.count("law_monotonicity")
            b, p = base[("so", verb, d, exc)][0], plus[(verb, d, exc)]
            bad = (verb == "should" and b == "pass" and p != "pass") or (verb == "should_not" and b == "fail" and p != "fail")
            if bad:
                HUB.case = {"kind": "mono", "mods": mods, "imps": imps, "added": added, "s": s, "o": o}
                HUB.violation("C12", f"monotonicity:{verb}:{d}:{'except' if exc else 'plain'}", f"adding import {added} turned {verb} from {b} to {p}", {"case": HUB.case})


def filters_of(mods, root="r"):
    fs = [("named", m) for m in mods if m != root]
    fs += [("sub", m) for m in mods if m != root and any(is_ancestor(m, z) for z in mods)]
    return fs


def batch_alias(ev, mods, imps, subjects, acc):
    """'should not import anything' == 'should not import modules except' the subjects themselves,
    for a batch of pairwise unrelated subjects (the rewrite the documentation describes)."""
    HUB.case = {"kind": "batch_alias", "mods": mods, "imps": imps, "subjects": subjects}
    for d in rrule.DIRS:
        a = run(mk_rule({"verb": "should_not", "dir": d, "exc": False, "subs": subjects, "objs": [], "anything": True}), ev)[0]
        b = run(mk_rule({"verb": "should_not", "dir": d, "exc": True, "subs": subjects, "objs": subjects, "anything": False}), ev)[0]
        acc.evaluated(2)
        acc.count("law_alias_batch")
        if a != b:
            HUB.violation("C12", f"alias-batch:{d}", f"'should not ... anything' gave {a}, 'should not ... except themselves' gave {b} for subjects {subjects}", {"case": HUB.case})


def regex_family(ev, mods, imps, rx, o, acc, pre_drop=None):
    """Duality and decomposition also hold when one side is given by a regex (a batch): the subject of
    'S should import O' is the importer, the subject of 'O should be imported by S' the importee."""
    import re as _re

    s = ("regex", rx)
    if not any(_re.match(rx, m) for m in mods):
        return unmatched_regex_negation(ev, mods, imps, rx, o, acc)
    case = {"kind": "regex_family", "mods": mods, "imps": imps, "rx": rx, "o": o, "pre_drop": pre_drop}
    HUB.case = case
    pre = None
    if pre_drop:
        # every rule object of the family first sees a smaller architecture (one regex match missing): the laws speak
        # about the rules, not about what a rule object happened to be applied to before
        m2 = [m for m in mods if m != pre_drop and not m.startswith(pre_drop + ".")]
        pre = build(m2, [(a, b) for a, b in imps if a in m2 and b in m2], check=False)
        acc.count("regex_families_with_reused_rule_objects")

    def apply(cfg):
        r = mk_rule(cfg)
        if pre is not None:
            run(r, pre)
        acc.evaluated()
        return run(r, ev)[0]

    out = {}
    for verb in rrule.VERBS:
        for d in rrule.DIRS:
            for exc in (False, True):
                out[("so", verb, d, exc)] = apply(cfg_of(verb, d, exc, s, o))
    from ..drive import hostile_reads

    hostile_reads(ev, mods)  # between the two halves of the law the caller reads (and scribbles on) accessor results
    for verb in ("should", "should_not"):
        for d in rrule.DIRS:
            # the dual rule is a fresh object applied to this architecture only
            out[("os", verb, d)] = run(mk_rule(cfg_of(verb, d, False, o, s)), ev)[0]
            acc.evaluated()
    acc.count("regex_families")
    if any(v.startswith("error") for v in out.values()):
        if not all(v.startswith("error") for v in out.values()):
            HUB.violation("C12", "regex-family-partial-error", "some rules of one regex family raised, others gave verdicts", {"case": case, "outcomes": {str(k): v for k, v in out.items()}})
        return
    w = {"case": case, "outcomes": {str(k): v for k, v in out.items()}}
    for verb in ("should", "should_not"):
        acc.count("law_duality", 2)
        if out[("so", verb, "import", False)] != out[("os", verb, "be")]:
            HUB.violation("C12", f"duality:{verb}:regex-subject", f"'S {verb} import O' and 'O {verb} be imported by S' differ for a regex S", w)
        if out[("so", verb, "be", False)] != out[("os", verb, "import")]:
            HUB.violation("C12", f"duality:{verb}:regex-subject", f"'S {verb} be imported by O' and 'O {verb} import S' differ for a regex S", w)
    for d in rrule.DIRS:
        acc.count("law_decomposition", 2)
        if (out[("so", "should_only", d, False)] == "pass") != (out[("so", "should", d, False)] == "pass" and out[("so", "should_not", d, True)] == "pass"):
            HUB.violation("C12", f"decomposition:should_only:{d}:regex-subject", "'should only' differs from 'should' and 'should not ... except' for a regex subject", w)
        if (out[("so", "should_only", d, True)] == "pass") != (out[("so", "should", d, True)] == "pass" and out[("so", "should_not", d, False)] == "pass"):
            HUB.violation("C12", f"decomposition:should_only_except:{d}:regex-subject", "'should only ... except' differs from its decomposition for a regex subject", w)


def unmatched_regex_negation(ev, mods, imps, rx, o, acc):
    """A regex that matches nothing gives no verdict at all; if a change turns the 'nothing matches' error into something
    that looks like a verdict, 'should' and 'should not' come out the same way - which the negation law forbids."""
    HUB.case = {"kind": "regex_family", "mods": mods, "imps": imps, "rx": rx, "o": o, "pre_drop": None}
    for side in ("subject", "object"):
        for d in rrule.DIRS:
            for exc in (False, True):
                s_, o_ = (("regex", rx), o) if side == "subject" else (o, ("regex", rx))
                a = run(mk_rule(cfg_of("should", d, exc, s_, o_)), ev)[0]
                b = run(mk_rule(cfg_of("should_not", d, exc, s_, o_)), ev)[0]
                acc.evaluated(2)
                acc.count("law_negation_unmatched_regex")
                if a in ("pass", "fail") and b in ("pass", "fail") and a == b:
                    HUB.violation("C12", f"negation:{d}:{'except' if exc else 'plain'}:unmatched-regex-{side}", f"'should' and 'should not' both {a} for a regex {side} that matches no module", {"rx": rx, "other": o, "should": a, "should_not": b})


def nested_batch_family(ev, mods, imps, s, objs, acc):
    """Decomposition with a BATCH on the object side that lists a package next to one of its own sub packages
    (redundant, legal): 'should only' <=> 'should' and 'should not ... except'; 'should only ... except' <=> 'should
    ... except' and 'should not' - for the same batch on every side of the law."""
    case = {"kind": "nested_batch_family", "mods": mods, "imps": imps, "s": s, "objs": objs}
    HUB.case = case
    out = {}
    for verb in rrule.VERBS:
        for d in rrule.DIRS:
            for exc in (False, True):
                cfg = {"verb": verb, "dir": d, "exc": exc, "subs": [s], "objs": list(objs), "anything": False}
                out[(verb, d, exc)] = run(mk_rule(cfg, True), ev)[0]
                acc.evaluated()
    acc.count("nested_batch_families")
    if any(v.startswith("error") for v in out.values()):
        return
    w = {"case": case, "outcomes": {str(k): v for k, v in out.items()}}
    for d in rrule.DIRS:
        acc.count("law_decomposition", 2)
        if (out[("should_only", d, False)] == "pass") != (out[("should", d, False)] == "pass" and out[("should_not", d, True)] == "pass"):
            HUB.violation("C12", f"decomposition:should_only:{d}:nested-object-batch", "'should only' differs from 'should' and 'should not ... except' for a batch listing a package next to its sub package", w)
        if (out[("should_only", d, True)] == "pass") != (out[("should", d, True)] == "pass" and out[("should_not", d, False)] == "pass"):
            HUB.violation("C12", f"decomposition:should_only_except:{d}:nested-object-batch", "'should only ... except' differs from its decomposition for a batch listing a package next to its sub package", w)
    # duality with the nested batch on the SUBJECT side: 'S should (not) import [P, P.q]' == '[P, P.q] should (not) be imported by S'
    other = {"import": "be", "be": "import"}
    for verb in ("should", "should_not"):
        for d in rrule.DIRS:
            dual = run(mk_rule({"verb": verb, "dir": other[d], "exc": False, "subs": list(objs), "objs": [s], "anything": False}, True), ev)[0]
            acc.evaluated()
            acc.count("law_duality")
            acc.count("law_duality_nested_subject_batch")
            if not dual.startswith("error") and dual != out[(verb, d, False)]:
                HUB.violation("C12", f"duality:{verb}:nested-subject-batch", f"'S {verb} {d} [P, P.q]' gave {out[(verb, d, False)]} but its dual with the batch as subject gave {dual}", dict(w, dual=dual))


def kept_rules_over_dying_architectures(rnd, acc, forced=None, rounds=10):
    """Rule objects that are defined once (module-level constants of a test module) and applied to every architecture of a
    build / evaluate / drop loop, in which every architecture is most likely allocated where its dead predecessor was.  On
    each architecture 'S verb import O' (kept object, regex S) must agree with 'O verb be imported by S' (fresh object, S
    given by the names the regex matches there), and the other way round."""
    import re as _re

    from ..drive import Recycler

    if forced:
        rx, o, seq = forced["rx"], tuple(forced["o"]), forced["seq"]
    else:
        base = random_tree(rnd, 6, 9)
        parents = [m for m in base if m != "r"]
        p = rnd.choice(parents)
        rx = _re.escape(p) + rnd.choice([r"(\.\w+)?$", r"\.\w+$", r"(\..*)?$"])
        others = [m for m in parents if not related(m, p)]
        if not others:
            return
        o = ("named", rnd.choice(others))
        seq = []
        for _ in range(rounds):
            extra = sorted({p + "." + rnd.choice(["x", "y", "z", "w", "v", "x.deep"]) for _ in range(rnd.randint(1, 4))})
            mods = sorted(close_under_ancestors(set(base) | set(extra)))
            imps = random_imports(rnd, mods, k_max=8)
            for e in extra:  # the modules only this round has take part in the imports the rules are about
                if rnd.random() < 0.6 and not related(e, o[1]):
                    imps = sorted(set(imps) | {rnd.choice([(e, o[1]), (o[1], e)])})
            seq.append((mods, imps))
    s = ("regex", rx)
    case = {"kind": "kept_rules", "rx": rx, "o": o, "seq": seq, "mods": [], "imps": []}
    kept = {(verb, d): mk_rule(cfg_of(verb, d, False, s, o)) for verb in ("should", "should_not") for d in rrule.DIRS}
    rc = Recycler()
    for i, (mods, imps) in enumerate(seq):
        imps = [tuple(e) for e in imps]
        ev = rc.next(mods, imps)
        HUB.case = dict(case, round=i)
        matched = [m for m in mods if _re.match(rx, m)]
        if not matched:
            continue
        for (verb, d), r in kept.items():
            a = run(r, ev)[0]
            dual = cfg_of(verb, "be" if d == "import" else "import", False, o, s)
            dual["objs"] = [("named", m) for m in matched]
            b = run(mk_rule(dual), ev)[0]
            acc.evaluated(2)
            acc.count("law_duality")
            acc.count("duality_checks_with_kept_rule_objects_on_recycled_architectures")
            if a != b:
                HUB.violation("C12", f"duality:{verb}:kept-regex-rule-object", f"'S {verb} {d} O' (a rule object kept over a build / evaluate / drop loop, S a regex) gave {a}, 'O {verb} ... S' with S spelled out gave {b} on the same architecture (round {i})", {"rx": rx, "o": o, "round": i, "mods": mods, "imps": imps, "matched": matched})
        del ev
    rc.drop()


def one_family(ev, mods, imps, s, o, acc, fid, mono_edges):
    out = eval_family(ev, mods, imps, s, o, acc, fid)
    acc.count("families")
    rel = related(s[1], o[1])
    acc.hist("family_kind", ("related" if rel else "unrelated") + f":{s[0]}/{o[0]}")
    if len(out) != 12 + 4 + 4:
        acc.mark_inconclusive("family operands missing from the event log")
        return
    check_family(out, mods, imps, s, o, acc)
    vals = {x[0] for x in out.values()}
    if imps and "pass" in vals and "fail" in vals:
        acc.nontrivial({"m": mods, "i": imps, "s": s, "o": o})
    if any(x[0] == "error" for x in out.values()):
        return
    for added in mono_edges:
        imps2 = sorted(set(map(tuple, imps)) | {tuple(added)})
        ev2 = build(mods, imps2)
        plus = eval_mono(ev2, s, o, fid + "+", acc)
        check_mono(out, plus, mods, imps, added, s, o, acc)
        acc.count("mono_pairs")


def big_families(rnd, acc):
    """Magnitudes: 1000+ imports between subject and object (33 x 33 and more), a module with 250-400 importers; the laws
    are checked on the batch and after one more import is added."""
    k = rnd.choice([32, 33, 40])
    a = [f"r.a.m{i:02d}" for i in range(k)]
    b = [f"r.b.t{i:02d}" for i in range(k)]
    mods = ["r", "r.a", "r.b", "r.c", "r.zz_tool", "r.hub"] + a + b
    imps = [(x, y) for x in a for y in b]
    if rnd.random() < 0.7:
        imps.append((rnd.choice(a), "r.c"))
    if rnd.random() < 0.5:
        imps.append(("r.zz_tool", rnd.choice(b)))
    imps = sorted(set(imps))
    ev = build(mods, imps)
    one_family(ev, mods, imps, ("named", "r.a"), ("named", "r.b"), acc, "big1", [(a[-1], "r.c"), ("r.c", b[0])])
    one_family(ev, mods, imps, ("sub", "r.a"), ("sub", "r.b"), acc, "big2", [("r.zz_tool", b[-1])])
    # a hub with many importers from one package, plus (perhaps) one from outside
    n = rnd.choice([255, 256, 257, 400])
    imp_mods = [f"r.app.m{i:03d}" for i in range(n + 1)]
    mods2 = ["r", "r.app", "r.hub", "r.zz_tool", "r.aa_tool"] + imp_mods
    imps2 = [(m, "r.hub") for m in imp_mods[:n]] + ([("r.zz_tool", "r.hub")] if rnd.random() < 0.7 else [])
    ev2 = build(mods2, sorted(imps2))
    one_family(ev2, mods2, sorted(imps2), ("named", "r.hub"), ("named", "r.app"), acc, "big3", [(imp_mods[n], "r.hub"), ("r.aa_tool", "r.hub")])
    acc.count("big_families")


def source_monotonicity(spec, acc):
    """Adding an import (here: appending an import statement to a scanned file) never turns a passing
    'should' into a failing one nor a failing 'should not' into a passing one."""
    import os

    from pytestarch import get_evaluable_architecture

    from .. import trees

    rnd = random.Random(spec["seed"])
    for i in range(spec["n"]):
        tspec = trees.random_project(rnd, depth=3, imports_per_file=(1, 3), name_imports=0.0, extras=False)
        files = sorted(f for f in tspec["files"] if f.endswith(".py"))
        mods = [trees.mod_of("proj", f) for f in files]
        if len(files) < 3:
            continue
        f = rnd.choice(files)
        me = trees.mod_of("proj", f)
        target = rnd.choice([m for m in mods if m != me and not me.startswith(m + ".")])
        parent, _, leaf = target.rpartition(".")
        stmt = rnd.choice([f"import {target}", f"from {parent} import {leaf}", f"from {parent} import {leaf} as zz"])
        # often: one more name from a package the file already imports from in a statement of its own
        froms = [ln.split()[1] for ln in tspec["files"][f].split("\n") if ln.startswith("from ") and not ln.startswith("from .")]
        sibs = [m for m in mods if m != me and m.rpartition(".")[0] in froms]
        if sibs and rnd.random() < 0.6:
            target = rnd.choice(sibs)
            parent, _, leaf = target.rpartition(".")
            stmt = f"from {parent} import {leaf}"
            acc.count("source_monotonicity_second_from_import_of_a_package")
        case = {"kind": "source_mono", "spec": tspec, "file": f, "stmt": stmt}
        HUB.case = case
        root = trees.write_tree(tspec)
        try:
            get_evaluable_architecture(root, root)
            before = HUB.scan_events[-1]
            with open(os.path.join(root, f), "a") as fh:
                fh.write("\n" + stmt + "\n")
            get_evaluable_architecture(root, root)
            after = HUB.scan_events[-1]
        finally:
            trees.remove_tree(root)
        acc.evaluated(2)
        acc.count("source_monotonicity_pairs")
        gone = sorted(e for e in before.imps - after.imps)
        if gone:
            HUB.violation("C12", "monotonicity:source-level:import-lost", f"appending '{stmt}' to {f} removed imports {gone[:3]}", {"case": case, "lost": gone})
            continue
        # verdict level on a few rules that touch the edited module
        for _ in range(4):
            o = rnd.choice([m for m in mods if m != me])
            for verb, exc in MONO:
                cfg = cfg_of(verb, "import", exc, ("named", me), ("named", o))
                b, a = run(mk_rule(cfg), before.evaluable)[0], run(mk_rule(cfg), after.evaluable)[0]
                acc.evaluated(2)
                acc.count("law_monotonicity")
                if (verb == "should" and b == "pass" and a != "pass") or (verb == "should_not" and b == "fail" and a != "fail"):
                    HUB.violation("C12", f"monotonicity:source-level:{verb}", f"appending '{stmt}' turned {verb} from {b} to {a}", {"case": case, "cfg": cfg})
        if after.imps - before.imps:
            acc.nontrivial({"t": tspec, "f": f, "s": stmt})


def plan(tier, seed):
    specs = [{"kind": "source_mono", "n": 60 if tier == "quick" else 1500} for _ in range(2 if tier == "quick" else 6)]
    nsh = 6 if tier == "quick" else 16
    for i in range(nsh):
        specs.append({"kind": "exhaustive", "tree": "T1", "every": 4 if tier == "quick" else 1, "part": i, "parts": nsh})
    for i in range(8 if tier == "quick" else 16):
        specs.append({"kind": "random", "n": 500 if tier == "quick" else 6000})
    return specs


def run_shard(spec, acc):
    if spec["kind"] == "source_mono":
        source_monotonicity(spec, acc)
    elif spec["kind"] == "exhaustive":
        exhaustive(spec, acc)
    else:
        randomised(spec, acc)


def exhaustive(spec, acc):
    tree = c01.SMALL_TREES[spec["tree"]]
    mods = ["r"] + tree
    pairs = c01.tree_pairs(tree)
    fs = filters_of(mods)
    sos = [(s, o) for s in fs for o in fs if s[1] != o[1]]
    unrel = [(a, b) for a, b in candidate_imports(mods, ancestor_imports=False) if "." in a and "." in b]
    idx = 0
    for bits in range(0, 1 << len(pairs), spec["every"]):
        idx += 1
        if idx % spec["parts"] != spec["part"]:
            continue
        imps = [pairs[j] for j in range(len(pairs)) if bits >> j & 1]
        ev = build(mods, imps)
        missing = [e for e in unrel if e not in imps]
        for si, (s, o) in enumerate(sos):
            one_family(ev, mods, imps, s, o, acc, f"x{bits}.{si}", missing if (bits + si) % 7 == 0 else missing[:1])
    if spec["every"] == 1:
        acc.flags["exhaustive_T1"] = True
    if spec["part"] == 0:
        acc.sample({"kind": "family", "modules": mods, "imports": [pairs[0]], "subject": sos[3][0], "object": sos[3][1], "rules": "12 shapes + 4 duals + 2 aliases + 2 except-itself, then 8 rules per added import"})


def randomised(spec, acc):
    rnd = random.Random(spec["seed"])
    for _ in range(1 if spec["n"] < 2000 else 6):
        big_families(rnd, acc)
    n = 0
    while n < spec["n"]:
        if n % 8 == 0:
            kept_rules_over_dying_architectures(rnd, acc)
        if n % 4 == 0:
            # the alias law on ONE 'anything' rule object that is logged (str) and re-used for one subject after the other
            m0 = random_tree(rnd, 7, 11)
            i0 = random_imports(rnd, m0, k_max=10)
            e0 = build(m0, i0)
            for (kind_, subj), d_, got in c01.anything_rule_looped_over_subjects(e0, m0, i0, rnd, acc) or []:
                want = run(mk_rule(cfg_of("should_not", d_, True, (kind_, subj), (kind_, subj))), e0)
                acc.evaluated()
                acc.count("law_alias")
                acc.count("alias_law_on_a_looped_anything_rule_object")
                if got[0] != want[0]:
                    HUB.violation("C12", f"alias:{d_}:looped-rule-object", f"'{subj} should not ... anything' on a rule object that was logged and re-used for several subjects gave {got[0]}, 'should not ... except itself' gave {want[0]}", {"mods": m0, "imps": i0, "subject": [kind_, subj], "dir": d_})
        mods = random_tree(rnd, 7, 12)
        imps = random_imports(rnd, mods, k_max=10)
        ev = build(mods, imps)
        fs = filters_of(mods)
        unrel = [e for e in candidate_imports(mods, ancestor_imports=False) if e not in imps]
        for _ in range(4):
            s = rnd.choice(fs)
            if rnd.random() < 0.45:
                rel = [f for f in fs if f[1] != s[1] and related(f[1], s[1])]
                o = rnd.choice(rel) if rel else rnd.choice(fs)
            else:
                o = rnd.choice(fs)
            if o[1] == s[1]:
                continue
            edges = rnd.sample(unrel, min(len(unrel), 3))
            one_family(ev, mods, imps, s, o, acc, f"r{n}", edges)
            from ..drive import pick_unrelated

            kind = rnd.choice(["named", "sub"])
            batch = pick_unrelated(rnd, mods, rnd.randint(2, 3), kind=kind)
            if len(batch) >= 2:
                batch_alias(ev, mods, imps, [(kind, b) for b in batch], acc)
                if rnd.random() < 0.3:
                    # a batch that names one of its modules twice (two config lists merged): the same batch
                    dup = [(kind, b) for b in batch]
                    dup.insert(rnd.randint(0, len(dup)), rnd.choice(dup))
                    batch_alias(ev, mods, imps, dup, acc)
                    batch_alias(ev, mods, imps, [dup[0], dup[0]], acc)
                    acc.count("alias_law_on_batches_naming_a_module_twice")
            if rnd.random() < 0.4:
                from ..refmodel.names import is_ancestor as _anc

                nested = [(a, b) for a in mods for b in mods if a != "r" and _anc(a, b)]
                free = [m for m in mods if m != "r"]
                if nested:
                    a, b = rnd.choice(nested)
                    outside = [m for m in free if not related(m, a)]
                    if outside:
                        k = rnd.choice(["sub", "named"])
                        objs = [(k, a), (k, b)]
                        rnd.shuffle(objs)
                        subj = rnd.choice(outside)
                        nested_batch_family(ev, mods, imps, (rnd.choice(["named", "sub"]), subj), objs, acc)
                        # ... and with an import between the subject and the INNER package itself
                        extra = (subj, b) if rnd.random() < 0.5 else (b, subj)
                        if not (_anc(extra[0], extra[1]) and extra[1].count(".") == extra[0].count(".") + 1):
                            imps2 = sorted(set(imps) | {extra})
                            nested_batch_family(build(mods, imps2), mods, imps2, ("named", subj), objs, acc)
            if rnd.random() < 0.5:
                import re as _re

                names = [m for m in mods if m != "r"]
                m = rnd.choice(names)
                rx = rnd.choice([_re.escape(m) + r"(\..*)?$", _re.escape(m) + r"(\.[a-z_]+)?$", _re.escape(m.rsplit(".", 1)[0]) + r"\.[a-z_]+$"])
                o2 = rnd.choice(fs)
                matched = [x for x in names if _re.match(rx, x) and not any(y != x and y.startswith(x + ".") for y in names) and not related(x, o2[1])]
                pre_drop = rnd.choice(matched) if len([x for x in names if _re.match(rx, x)]) >= 2 and matched and rnd.random() < 0.5 else None
                regex_family(ev, mods, imps, rx, o2, acc, pre_drop=pre_drop)
                if rnd.random() < 0.1:
                    regex_family(ev, mods, imps, _re.escape(m) + r"_zz_nothing$", o2, acc)
            n += 1
            if n % 97 == 1:
                acc.sample({"kind": "family", "modules": mods, "imports": imps, "subject": s, "object": o, "added_for_monotonicity": edges})


def replay(case, acc):
    mods = case["mods"]
    imps = [tuple(i) for i in case["imps"]]
    if case["kind"] == "source_mono":
        acc.mark_inconclusive("source-level monotonicity cases are replayed by re-running the check with the recorded seed")
        return
    if case["kind"] == "kept_rules":
        return kept_rules_over_dying_architectures(random.Random(0), acc, forced=case)
    if case["kind"] == "nested_batch_family":
        return nested_batch_family(build(mods, imps), mods, imps, tuple(case["s"]), [tuple(o) for o in case["objs"]], acc)
    if case["kind"] == "regex_family":
        regex_family(build(mods, imps), mods, imps, case["rx"], tuple(case["o"]), acc, pre_drop=case.get("pre_drop"))
        return
    if case["kind"] == "batch_alias":
        batch_alias(build(mods, imps), mods, imps, [tuple(x) for x in case["subjects"]], acc)
        return
    s, o = tuple(case["s"]), tuple(case["o"])
    ev = build(mods, imps)
    extra = [tuple(case["added"])] if case.get("added") else []
    one_family(ev, mods, imps, s, o, acc, "replay", extra)


def floors(acc, tier):
    why = []
    for law in ("law_duality", "law_negation", "law_decomposition", "law_alias", "law_monotonicity"):
        if acc.counters[law] < 1000:
            why.append(f"{law}: only {acc.counters[law]} instances checked")
    if acc.counters["big_families"] < 3:
        why.append("too few families on big architectures (1000+ imports, 250+ importers)")
    if acc.counters["law_negation_unmatched_regex"] < 50:
        why.append(f"negation law on unmatched regexes: {acc.counters['law_negation_unmatched_regex']}")
    if acc.counters["regex_families_with_reused_rule_objects"] < 30:
        why.append(f"regex families with re-used rule objects: {acc.counters['regex_families_with_reused_rule_objects']}")
    if acc.counters["duality_checks_with_kept_rule_objects_on_recycled_architectures"] < 200 or acc.counters["architectures_built_at_the_address_of_a_dead_predecessor"] < 50:
        why.append(f"kept rule objects on recycled architectures: {acc.counters['duality_checks_with_kept_rule_objects_on_recycled_architectures']} checks, {acc.counters['architectures_built_at_the_address_of_a_dead_predecessor']} address re-uses")
    if acc.counters["rules_finished_on_a_copy_of_a_kept_prefix:deepcopy"] < 100:
        why.append("too few rules of the law families finished on a copy of a kept prefix")
    if acc.counters["source_monotonicity_second_from_import_of_a_package"] < 10:
        why.append("too few appended from-imports of a package the file already imports from")
    if acc.counters["source_monotonicity_pairs"] < 50:
        why.append(f"source-level monotonicity pairs: {acc.counters['source_monotonicity_pairs']}")
    h = acc.hists.get("family_kind", {})
    if not any(k.startswith("related") for k in h):
        why.append("no family with related subject/object observed")
    acc.flags["exhaustive"] = bool(acc.flags.get("exhaustive_T1"))
    acc.flags["exhaustive_subspaces"] = "thorough: every import relation over tree T1 x every ordered (subject filter, object filter) pair with different names"
    return why
