"""C08 - exclusions remove exactly the matching files/directories, nothing else.

Deciding steps: (a) online R-SCAN post-condition on the filtered scan (R-GLOB predicates on the
path string / re.match for regexes); (b) offline metamorphic checker pairing the filtered scan
with the unfiltered scan of the same tree; (c) post-condition on convert_partial_match_to_regex
(contract on every call + exhaustive driver over a small alphabet): re.match(convert(p), s) <=> R-GLOB(p, s).
"""
from __future__ import annotations

import itertools
import os
import random
import re

from .. import trees
from ..monitors import HUB
from ..monitors_more import attribute_scan_findings
from ..refmodel import glob as rglob
from ..refmodel.names import ancestors, is_ancestor

ID = "C08"
LEVEL = "exploration"
TECHNIQUE = "online R-SCAN/R-GLOB post-condition on filtered scans + offline filtered-vs-unfiltered metamorphic checker + exhaustive glob-to-regex conversion contract over a small alphabet"
LEVEL_TEXT = (
    "Held on every observed (tree, exclusion tuple): the filtered architecture equals the unfiltered one minus exactly the matching paths "
    "and their sub-trees, and the glob->regex conversion agrees with the four documented glob shapes for ALL patterns and subject strings "
    "over a 6/5-symbol alphabet up to the tier's length (quick: patterns <= 4, strings <= 4; thorough: patterns <= 6, strings <= 5)."
)
LEVEL_NOTE = "Trusts R-GLOB (four string predicates), Python's re for regex exclusions, and the unfiltered scan as the baseline of the metamorphic relation."
LEVEL_TEXT += ' Excluded files that cannot be parsed (Python 2, template text, undecodable bytes) must leave the scan equal to the tree without them; conversion strings contain an upper-case letter. Extra shards scan random projects (a quarter of them wide and deep) under independently drawn options - file exclusions, level limit, kept externals with external exclusions, module_path below the root, module-object entry point - judged by the same deciding steps.'
RULE = (
    "an evaluation = one filtered scan compared with its unfiltered twin, or one (pattern, subject string) conversion comparison; non-trivial scan = "
    "the patterns exclude at least one but not all modules; distinct = distinct (tree digest, pattern tuple) / distinct (pattern, string) pairs"
)
ASSUMPTIONS = [
    "patterns are matched against the absolute path string, as the code and docs do; the scratch prefix is upper-case so that patterns built from tree names cannot match it",
    "from-imports of an excluded sub-module may or may not fall back to the parent package (documentation ambiguous, DESIGN ambiguity v)",
]
SHARD_TIMEOUT = {"quick": 900, "thorough": 3400}

WEIRD = ["we+ird", "d$x", "c^t", "k(1)", "br[a]", "q?m", "pi|pe", "cur{l}y", "back\\slash".replace("\\", "_"), "st*r".replace("*", "_")]
ALPHA_P = "ab*./+"
ALPHA_S = "ab./+A"  # incl. an upper-case letter: patterns are case-sensitive


def plan(tier, seed):
    specs = []
    for _ in range(8 if tier == "quick" else 14):
        specs.append({"kind": "scans", "n": 30 if tier == "quick" else 320})
    plen, slen = (4, 4) if tier == "quick" else (6, 5)
    parts = 4 if tier == "quick" else 16
    for i in range(parts):
        specs.append({"kind": "convert", "plen": plen, "slen": slen, "part": i, "parts": parts})
    # a second alphabet with the characters other glob dialects give a meaning to (?, [, ], **, a trailing slash, $, ^)
    e = (3, 3) if tier == "quick" else (5, 4)
    for i in range(2 if tier == "quick" else 8):
        specs.append({"kind": "convert", "plen": e[0], "slen": e[1], "part": i, "parts": 2 if tier == "quick" else 8, "alpha_p": "a*?[]/$^", "alpha_s": "ab?[]/$^"})
    return specs


def run_shard(spec, acc):
    if spec["kind"] == "convert":
        convert_exhaustive(spec, acc)
    else:
        rnd = random.Random(spec["seed"])
        for i in range(spec["n"]):
            names = trees.NAMES + (rnd.sample(WEIRD, 3) if rnd.random() < 0.5 else [])
            tspec = trees.random_project(rnd, depth=rnd.choice([2, 3, 4]), imports_per_file=(0, 3), names=names)
            if rnd.random() < 0.25:
                # generated artefacts whose NAMES contain what a shell would expand: '$STAGE' / '${STAGE}' / '~' / '%TEMP%'
                # are ordinary characters of a file name and of a pattern (the variables are set in this process)
                os.environ.setdefault("STAGE", "prod")
                os.environ.setdefault("TEMP", "tmpdir")
                d = rnd.choice(trees.all_dirs(tspec))
                pre = d + "/" if d else ""
                for fn in rnd.sample(["settings_$STAGE.py", "settings_prod.py", "${STAGE}/conf.py", "prod/conf.py", "~user.py", "%TEMP%.py", "tmpdir.py", "$HOME.py"], 4):
                    tspec["files"].setdefault(pre + fn, "import proj\n")
                acc.count("trees_with_shell_metacharacters_in_file_names")
            one_tree(tspec, acc, rnd, sample=(i % 11 == 0))
            if i % 3 == 0:
                excluded_unparsable(tspec, acc, rnd)


UNPARSABLE = {
    "legacy_py2.py": "print 'python 2'\nexec \"x = 1\"\n",
    "tmpl_file.py": "{{ cookiecutter.project_slug }} = {% if x %}1{% endif %}\n",
    "latin_bytes.py": {"hex": "x = '".encode().hex() + "f6df" + "'\n".encode().hex()},
}


def excluded_unparsable(tspec, acc, rnd, forced=None):
    """Files that match an exclusion pattern contribute nothing - so they need not even be valid source: the scan of a
    tree with excluded files that cannot be parsed equals the unfiltered scan of the same tree without those files."""
    from pytestarch import get_evaluable_architecture

    clean = {"root": tspec["root"], "dirs": list(tspec.get("dirs", [])), "files": dict(tspec["files"])}
    dirty = {"root": tspec["root"], "dirs": list(tspec.get("dirs", [])), "files": dict(tspec["files"])}
    dirs = trees.all_dirs(tspec)
    placed = forced["placed"] if forced else {}
    if not forced:
        for name in rnd.sample(sorted(UNPARSABLE), rnd.randint(1, 3)):
            d = rnd.choice(dirs)
            placed[(d + "/" if d else "") + name] = name
    for rel, name in placed.items():
        dirty["files"][rel] = UNPARSABLE[name]
    use_regex = forced["use_regex"] if forced else rnd.random() < 0.4
    names = sorted(set(placed.values()))
    pats = [".*/" + re.escape(n) + "$" for n in names] if use_regex else ["*" + n for n in names]
    case = {"kind": "excluded-unparsable", "spec": tspec, "placed": placed, "use_regex": use_regex}
    r1, r2 = trees.write_tree(clean), trees.write_tree(dirty)
    try:
        HUB.case = case
        get_evaluable_architecture(r1, r1, exclusions=(), regex_exclusions=())
        ref = HUB.scan_events[-1]
        kw = {"exclusions": (), "regex_exclusions": tuple(pats)} if use_regex else {"exclusions": tuple(pats)}
        try:
            get_evaluable_architecture(r2, r2, **kw)
        except Exception as e:  # noqa: BLE001  (the monitor recorded it as a failed scan)
            acc.count("excluded_unparsable_scans_raised")
            acc.hist("excluded_unparsable_exception", type(e).__name__)
            return
        finally:
            acc.evaluated()
            acc.count("excluded_unparsable_scans")
        se = HUB.scan_events[-1]
        attribute_scan_findings(se, {"nodes": "C08", "edge-missing": "C08", "edge-extra": "C08"}, case)
        if se.state != ref.state:
            HUB.violation("C08", "excluded-file-changes-architecture", "a tree with excluded (unparsable) files differs from the same tree without them", {"placed": placed, "patterns": pats, "nodes_diff": sorted(se.nodes ^ ref.nodes), "imports_diff": sorted(se.imps ^ ref.imps)})
        acc.nontrivial({"t": tspec, "p": sorted(placed)})
    finally:
        trees.remove_tree(r1)
        trees.remove_tree(r2)


# -- (c) conversion -------------------------------------------------------------------------


def convert_exhaustive(spec, acc):
    from pytestarch.eval_structure_generation.file_import.config import Config
    from pytestarch.eval_structure_generation.file_import.file_filter import FileFilter
    from pytestarch.utils.partial_match_to_regex_converter import convert_partial_match_to_regex

    alpha_p, alpha_s = spec.get("alpha_p", ALPHA_P), spec.get("alpha_s", ALPHA_S)
    strings = [""] + ["".join(t) for n in range(1, spec["slen"] + 1) for t in itertools.product(alpha_s, repeat=n)]
    idx = 0
    for n in range(0, spec["plen"] + 1):
        for t in itertools.product(alpha_p, repeat=n):
            idx += 1
            if idx % spec["parts"] != spec["part"]:
                continue
            p = "".join(t)
            try:
                rx = re.compile(convert_partial_match_to_regex(p))
            except Exception as e:  # noqa: BLE001
                HUB.case = {"kind": "convert", "pattern": p}
                HUB.violation("C08", "convert-raises", f"convert_partial_match_to_regex({p!r}) raised {type(e).__name__}", {"pattern": p})
                continue
            lead, trail, text = rglob.split(p)
            ff = FileFilter(Config((rx.pattern,)))  # the composite the scan really uses: converter + file filter
            for s in strings:
                got = rx.match(s) is not None
                got_ff = ff.is_excluded(s)
                if got_ff != got:
                    HUB.case = {"kind": "convert", "pattern": p, "string": s}
                    HUB.violation("C08", "file-filter-not-anchored-at-start", f"FileFilter with regex {rx.pattern!r} says {got_ff} for {s!r}, re.match says {got}", {"pattern": p, "string": s, "regex": rx.pattern})
                    break
                if lead and trail:
                    exp = text in s
                elif lead:
                    exp = s.endswith(text)
                elif trail:
                    exp = s.startswith(text)
                else:
                    exp = s == text
                if got != exp:
                    HUB.case = {"kind": "convert", "pattern": p, "string": s}
                    HUB.violation("C08", f"convert:{'*' if lead else ''}text{'*' if trail else ''}", f"pattern {p!r} {'matches' if got else 'does not match'} {s!r} but the documented glob meaning says {'match' if exp else 'no match'}", {"pattern": p, "string": s, "regex": rx.pattern})
                    break
            acc.evaluated(len(strings))
            acc.count("conversion_pairs", len(strings))
            acc.count("conversion_patterns")
            acc.hist("glob_shape_exhaustive", f"{'*' if lead else ''}text{'*' if trail else ''}")
            acc.nontrivial((1 << 70) | idx)
    if spec["part"] == 0:
        rxs = ["a", "b/", r"a\.b", "a|b", "(a|b)/", ".*a", ".*/a", "a$", ".*b$", "/a", "[ab]+", r".*\+", "a.*b", "(?:b)a"]
        for r in rxs:
            ff = FileFilter(Config((r,)))
            cre = re.compile(r)
            for s in strings:
                acc.count("regex_filter_pairs")
                if ff.is_excluded(s) != (cre.match(s) is not None):
                    HUB.case = {"kind": "regex-filter", "regex": r, "string": s}
                    HUB.violation("C08", "regex-exclusion-not-anchored-at-start-only", f"regex exclusion {r!r} vs {s!r}: filter says {ff.is_excluded(s)}, 're anchored at the start of the path' says {cre.match(s) is not None}", {"regex": r, "string": s})
                    break
            acc.evaluated(len(strings))
    acc.flags["exhaustive_conversion"] = True
    if spec["part"] == 0:
        acc.sample({"kind": "conversion", "pattern": "*a+", "string": "ba+", "expected": True})


# -- (a)+(b) scans ---------------------------------------------------------------------------


def paths_of(spec, root):
    """absolute paths of every directory and .py file of the tree."""
    out = []
    for d in trees.all_dirs(spec):
        out.append(os.path.join(root, d) if d else root)
    for f in spec["files"]:
        if f.endswith(".py"):
            out.append(os.path.join(root, f))
    return out


def gen_patterns(rnd, spec, root):
    """-> (kind, tuple of patterns) built from the tree's own names."""
    paths = paths_of(spec, root)
    pats = []
    for _ in range(rnd.randint(1, 3)):
        p = rnd.choice(paths)
        base = os.path.basename(p)
        stem = base[:-3] if base.endswith(".py") else base
        shape = rnd.choice(["exact", "*name", "*/name", "prefix*", "*/name/*", "*name*", "*stem*", "nothing", "*/stem*", "*.py-less", "bare", "bare*", "root"])
        if shape == "root":
            # a pattern that matches the scanned root directory itself: nothing at all is left
            pats.append(rnd.choice(["*" + os.path.basename(root), "*/" + os.path.basename(root), root]))
            continue
        if shape == "exact":
            pats.append(p)
        elif shape == "*name":
            pats.append("*" + base)
        elif shape == "*/name":
            pats.append("*/" + base)
        elif shape == "prefix*":
            pats.append(p[: rnd.randint(len(root) + 1, len(p))] + "*" if len(p) > len(root) + 1 else p + "*")
        elif shape == "*/name/*":
            pats.append("*/" + stem + "/*")
        elif shape == "*name*":
            pats.append("*" + base + "*")
        elif shape == "*stem*":
            pats.append("*" + stem + "*")
        elif shape == "*/stem*":
            pats.append("*/" + stem + "*")
        elif shape == "*.py-less":
            pats.append("*" + stem)
        elif shape == "bare":
            pats.append(base)  # a bare name equals no absolute path: must exclude nothing
        elif shape == "bare*":
            pats.append(stem + "*")  # no absolute path starts with a bare name
        else:
            pats.append("*no_such_thing_" + stem)
    return pats


def glob_to_equiv_regex(p):
    return rglob.to_regex(p)


def survivors(spec, root, mp_abs, base_nodes, globs, regexes):
    def excl(s):
        return any(rglob.matches(g, s) for g in globs) or any(re.match(r, s) for r in regexes)

    out = set()
    mpname = trees.mod_of("proj", os.path.relpath(mp_abs, root)) if mp_abs != root else "proj"
    for n in base_nodes:
        if not (n == mpname or is_ancestor(mpname, n)):
            continue
        rel = n.split(".")[1:]
        chain_ok = True
        cur = root
        chain = [root] if mp_abs == root else []
        for part in rel:
            cur = os.path.join(cur, part)
            chain.append(cur)
        # only path elements at or below module_path are tested
        chain = [c for c in chain if c == mp_abs or c.startswith(mp_abs + os.sep)]
        for i, c in enumerate(chain):
            last = i == len(chain) - 1
            path = c
            if last and not os.path.isdir(c):
                path = c + ".py"
            if excl(path):
                chain_ok = False
                break
        if chain_ok:
            out.add(n)
    closed = set(out)
    for n in out:
        closed.update(ancestors(n))
    return out, closed


def one_tree(tspec, acc, rnd, sample=False, forced=None):
    from pytestarch import get_evaluable_architecture

    root = trees.write_tree(tspec)
    try:
        dirs = [d for d in trees.all_dirs(tspec)]
        mp_rel = forced["mp"] if forced else (rnd.choice(dirs) if rnd.random() < 0.3 else "")
        mp_abs = os.path.join(root, mp_rel) if mp_rel else root
        include = forced.get("include", False) if forced else rnd.random() < 0.3
        inc_kw = {"exclude_external_libraries": False} if include else {}
        if include:
            acc.count("include_mode_trees")
        HUB.case = {"kind": "baseline", "spec": tspec, "mp": mp_rel, "include": include}
        get_evaluable_architecture(root, mp_abs, exclusions=(), regex_exclusions=(), **inc_kw)
        base = HUB.scan_events[-1]
        acc.count("baseline_scans")
        rounds = [forced] if forced else [None] * 4
        for fr in rounds:
            if fr:
                use_regex, pats = fr["use_regex"], [p.replace("<ROOT>", root) for p in fr["patterns"]]
            else:
                use_regex = rnd.random() < 0.4
                pats = gen_patterns(rnd, tspec, root)
                if use_regex:
                    def rxform(p):
                        r = rnd.random()
                        name = re.escape(os.path.basename(p.strip("*")) or "x")
                        if r < 0.45:
                            return glob_to_equiv_regex(p)
                        if r < 0.6:
                            return ".*" + name + "$"
                        if r < 0.75:
                            return ".*/" + name  # anchored at the start only: also excludes .../name_suffix and .../name/...
                        if r < 0.82:
                            return name  # cannot match at the start of an absolute path
                        if r < 0.9:
                            # top-level alternation after a leading wildcard: the second branch is anchored at the start
                            # of the path as well and can never match an absolute path
                            acc.count("regex_exclusions_with_top_level_alternation")
                            return ".*/" + name + "$|" + rnd.choice(sorted(trees.NAMES[:12]))
                        return ".*/" + name + "(/|$)"
                    pats = [rxform(p) for p in pats]
                    if rnd.random() < 0.3:
                        # hand-written regexes that only work when every pattern is applied on its own: an inline flag in
                        # the first one, a back-reference to the own first group in the second one
                        files = sorted(os.path.basename(f)[:-3] for f in tspec["files"] if f.endswith(".py") and os.path.basename(f) != "__init__.py")
                        dnames = sorted({os.path.basename(d) for d in dirs if d})
                        y = rnd.choice(files) if files else "aa"
                        x = rnd.choice(dnames) if dnames else "pkg"
                        other_case = y.swapcase() if y.swapcase() not in files else y + "_ZZ"
                        pats = rnd.choice([
                            ["(?i).*/" + re.escape(x.upper()) + "$", ".*/" + re.escape(other_case) + r"\.py$"],
                            [".*/(" + re.escape(x) + ")$", r".*/(\w)\1\.py$"],
                            [".*/(" + re.escape(x) + "|zz_no)$", r".*/(\w+)_\1\.py$", r".*/m(\d)\1?\.py$"],
                        ])
                        acc.count("regex_exclusions_with_flags_or_backreferences")
            if rnd.random() < 0.08:
                # very many patterns (the effective ones last): every single one counts
                filler = [("*no_such_entry_%03d" % k) if not use_regex else (".*/no_such_entry_%03d$" % k) for k in range(rnd.choice([99, 100, 101, 130, 257]))]
                pats = filler + list(pats)
                acc.count("scans_with_more_than_100_patterns")
            case = {"kind": "filtered", "spec": tspec, "mp": mp_rel, "use_regex": use_regex, "patterns": [p.replace(root, "<ROOT>") for p in pats], "include": include}
            HUB.case = case
            kw = {"exclusions": (), "regex_exclusions": tuple(pats)} if use_regex else {"exclusions": tuple(pats)}
            via_objects = fr.get("entry") == "object" if fr else rnd.random() < 0.3
            if via_objects:
                # the same request through the module-object entry point: patterns mean what they mean for paths
                from pytestarch import get_evaluable_architecture_for_module_objects

                from ..combos import _fake_module

                case["entry"] = "object"
                get_evaluable_architecture_for_module_objects(_fake_module(root), _fake_module(mp_abs), **kw, **inc_kw)
                acc.count("filtered_scans_through_the_module_object_entry_point")
            else:
                get_evaluable_architecture(root, mp_abs, **kw, **inc_kw)
            se = HUB.scan_events[-1]
            acc.evaluated()
            # the same patterns handed over as a list and as a one-shot generator: if the scan gives an architecture
            # at all, it is the same one
            from ..drive import typed_names

            for form, mk in (("list", lambda: list(pats)), ("generator", lambda: (p for p in pats)), ("tuple-of-enum-members", lambda: tuple(typed_names(list(pats), "enum"))), ("tuple-of-str-subclass-instances", lambda: tuple(typed_names(list(pats), "strsub")))):
                kw2 = {"exclusions": (), "regex_exclusions": mk()} if use_regex else {"exclusions": mk()}
                try:
                    get_evaluable_architecture(root, mp_abs, **kw2, **inc_kw)
                    alt = HUB.scan_events[-1]
                except Exception as e:  # noqa: BLE001  (no architecture, no claim)
                    acc.hist("pattern_container_rejected", f"{form}:{type(e).__name__}")
                    continue
                acc.count("scans_with_patterns_in_another_container")
                if alt.state != se.state:
                    HUB.violation("C08", f"patterns-as-{form}-differ-from-tuple", f"the same exclusion patterns given as a {form} build another architecture than given as a tuple", {"patterns": case["patterns"], "nodes_diff": sorted(alt.nodes ^ se.nodes), "imports_diff": sorted(alt.imps ^ se.imps)})
            # (a) monitor findings that the unfiltered scan does not show
            attribute_scan_findings(se, {"nodes": "C08", "edge-missing": "C08", "edge-extra": "C08"}, case, baseline=base)
            # (b) metamorphic relation with the unfiltered scan
            globs, regexes = ((), tuple(pats)) if use_regex else (tuple(pats), ())
            surv, closed = survivors(tspec, root, mp_abs, base.nodes, globs, regexes)
            mpn = trees.mod_of("proj", mp_rel)
            internal = lambda n: n == mpn or is_ancestor(mpn, n) or is_ancestor(n, mpn)  # noqa: E731
            got_nodes = {n for n in se.nodes if internal(n)} if include else set(se.nodes)
            if got_nodes != closed:
                HUB.violation("C08", "modules-differ-from-unfiltered-minus-excluded", "filtered module set is not the unfiltered set minus the excluded paths", {"patterns": case["patterns"], "include_externals": include, "extra": sorted(got_nodes - closed), "missing": sorted(closed - got_nodes)})
            if include:
                new_ext = {n for n in se.nodes if not internal(n)} - set(base.nodes)
                if new_ext:
                    HUB.violation("C08", "exclusion-adds-modules", "modules appeared that the unfiltered scan does not have", {"patterns": case["patterns"], "new": sorted(new_ext)})
            got_imps = {(a, b) for a, b in se.imps if internal(a) and internal(b)} if include else set(se.imps)
            exp_imps = {(a, b) for a, b in base.imps if a in surv and b in closed}
            lost = {e for e in exp_imps - got_imps if not is_ancestor(e[1], e[0])}
            if include:
                lost |= {(a, b) for a, b in base.imps if a in surv and not internal(b) and (a, b) not in se.imps}
            extra = set()
            for a, b in got_imps - exp_imps:
                if is_ancestor(b, a):
                    continue
                if any(x == a and c not in closed and c.rsplit(".", 1)[0] == b for x, c in base.imps):
                    acc.count("ambiguity_v_fallback_to_parent")
                    continue
                extra.add((a, b))
            if lost or extra:
                HUB.violation("C08", "imports-differ-from-unfiltered-restricted", "imports among surviving modules changed by the exclusion", {"patterns": case["patterns"], "include_externals": include, "lost": sorted(lost), "extra": sorted(extra)})
            nb = {n for n in base.nodes}
            removed = nb - se.nodes
            acc.hist("effect", "none" if not removed else "all" if not se.nodes else "some")
            if removed and se.nodes:
                acc.nontrivial({"t": tspec, "mp": mp_rel, "p": case["patterns"]})
            acc.hist("pattern_kind", "regex" if use_regex else "glob")
            for p in pats:
                if not use_regex:
                    lead, trail, _ = rglob.split(p)
                    acc.hist("glob_shape", f"{'*' if lead else ''}text{'*' if trail else ''}")
            if se.model:
                acc.count("excluded_dirs", se.model.excluded_dirs)
                acc.count("excluded_files", se.model.excluded_files)
            if any(any(ch in w for ch in "+$^()[]?|{}") for w in case["patterns"]):
                acc.count("patterns_with_regex_metacharacters")
            if sample:
                acc.sample({"files": sorted(tspec["files"])[:10], "module_path": mp_rel or ".", "patterns": case["patterns"], "regex": use_regex, "removed": sorted(removed)[:8]})
                sample = False
    finally:
        trees.remove_tree(root)


def replay(case, acc):
    if case["kind"] == "convert":
        p = case["pattern"]
        from pytestarch.utils.partial_match_to_regex_converter import convert_partial_match_to_regex

        s = case.get("string", "")
        got = re.match(convert_partial_match_to_regex(p), s) is not None
        if got != rglob.matches(p, s):
            HUB.case = case
            HUB.violation("C08", "convert:replayed", f"pattern {p!r} vs {s!r}: code says {got}", case)
        return
    if case["kind"] == "excluded-unparsable":
        return excluded_unparsable(case["spec"], acc, random.Random(0), forced={"placed": case["placed"], "use_regex": case["use_regex"]})
    forced = {"mp": case["mp"], "use_regex": case.get("use_regex", False), "patterns": case.get("patterns", []), "include": case.get("include", False), "entry": case.get("entry")}
    one_tree(case["spec"], acc, random.Random(0), forced=forced)


def floors(acc, tier):
    why = []
    if acc.counters["filtered_scans_through_the_module_object_entry_point"] < 50:
        why.append(f"only {acc.counters['filtered_scans_through_the_module_object_entry_point']} filtered scans through the module-object entry point")
    if acc.counters["conversion_pairs"] < 100000:
        why.append(f"conversion pairs: {acc.counters['conversion_pairs']}")
    h = acc.hists.get("effect", {})
    if h.get("some", 0) < 20:
        why.append(f"only {h.get('some', 0)} filtered scans removed some but not all modules")
    for sh in ("text", "*text", "text*", "*text*"):
        if acc.hists.get("glob_shape", {}).get(sh, 0) == 0:
            why.append(f"glob shape {sh} never used in a scan")
    if acc.counters["regex_exclusions_with_flags_or_backreferences"] < 10:
        why.append("too few regex exclusion tuples with inline flags / back-references")
    if acc.counters["excluded_unparsable_scans"] < 30:
        why.append(f"only {acc.counters['excluded_unparsable_scans']} scans with excluded files that cannot be parsed")
    if acc.counters["patterns_with_regex_metacharacters"] == 0:
        why.append("no pattern with regex metacharacters")
    if acc.counters["scan_model_errors"]:
        why.append("reference scanner crashed")
    acc.flags["exhaustive"] = bool(acc.flags.get("exhaustive_conversion"))
    acc.flags["exhaustive_subspaces"] = "glob->regex conversion: all patterns over {a,b,*,.,/,+} and all strings over {a,b,.,/,+} up to the tier's lengths"
    return why
