"""C01 - module-rule verdicts equal the documented rule semantics.

Deciding step: the online post-condition on Rule.assert_applies (monitors.judge_module_rule)
comparing the observed outcome with R-RULE on the evaluable's import relation.
This module only drives executions through the monitored boundary.
"""
from __future__ import annotations

import itertools
import random

from ..drive import build, mk_rule, pick_unrelated, random_imports, random_tree, run
from ..monitors import HUB
from ..refmodel import rules as rrule
from ..refmodel.names import is_ancestor, related

ID = "C01"
LEVEL = "exploration"
TECHNIQUE = 'online reference-model post-condition (R-RULE) on Rule.assert_applies; exhaustive small-tree sweep + seeded random graphs'
LEVEL_TEXT = 'Held on every observed evaluation: each Rule.assert_applies crossing the boundary is compared on the spot with an executable statement of the documented semantics. Complete over every import relation of 4-module trees x every single-subject/object rule shape; sampled beyond. Exploration, not proof: paths the workloads do not drive are not covered.'
LEVEL_NOTE = 'Trusts R-RULE (70 lines, written from the docs) and the raw networkx graph as ground truth; strict oracle only where the docs are unambiguous (pairwise unrelated subjects/objects).'
LEVEL_TEXT += ' Rules whose subjects (or whose objects) are nested in one another are judged too for the per-pair shapes (should / should not without except). Additionally an end-to-end soak: random projects on disk are scanned with the real scanner (externals kept or dropped, external exclusions, level limits, module_path below the root) and module rules, layer rules, diagram rules and plots are interleaved on those architectures with every monitor armed.'
LEVEL_TEXT += " One rule object is also switched between the two 'anything' aliases and re-applied. Name pools include unusual legal identifiers (non-ASCII, combining marks, U+00B7, case / zero-padding twins, py*/init* names)."
RULE = (
    "an evaluation = one Rule.assert_applies crossing the monitored boundary; non-trivial = judged by the strict "
    "R-RULE oracle (subjects/objects pairwise unrelated, both readings of the sub-modules-of ambiguity agree) on a "
    "NON-EMPTY import relation; distinct = distinct (module tree, import relation, rule configuration) triples"
)
ASSUMPTIONS = [
    "R-RULE (refmodel/rules.py, written from the documentation) is the intended semantics",
    "ground truth = raw networkx graph of the evaluable (inherits=False edges) cross-checked against the generating relation",
    "imports parent -> direct child are not generated (cannot coexist with the hierarchy edge in a simple digraph)",
    "strict verdict oracle only where the documentation is unambiguous; the rest is covered by C11/C12/C14 metamorphic laws",
]
SHARD_TIMEOUT = {"quick": 900, "thorough": 3000}

SMALL_TREES = {
    "T1": ["r.a", "r.a.x", "r.b", "r.c"],
    "T2": ["r.a", "r.a.x", "r.a.y", "r.b"],
    "T3": ["r.a", "r.a.x", "r.a.x.p", "r.b"],
    "T4": ["r.a", "r.ab", "r.a.b", "r.b"],
}
BIG_TREES = {
    "U1": ["r.a", "r.a.x", "r.b", "r.b.y", "r.c"],
}


def tree_pairs(tree):
    return [
        (a, b)
        for a in tree
        for b in tree
        if a != b and not (is_ancestor(a, b) and b.count(".") == a.count(".") + 1)
    ]


def rules_for_tree(tree, mods):
    """All single-subject/single-object rule configurations with unrelated subject/object."""
    filters = [("named", m) for m in tree] + [("sub", m) for m in tree if any(is_ancestor(m, z) for z in mods)]
    out = []
    for s in filters:
        out.append({"verb": "should_not", "dir": "import", "exc": False, "subs": [s], "objs": [], "anything": True})
        out.append({"verb": "should_not", "dir": "be", "exc": False, "subs": [s], "objs": [], "anything": True})
        for o in filters:
            if related(s[1], o[1]):
                continue
            for verb in rrule.VERBS:
                for d in rrule.DIRS:
                    for exc in (False, True):
                        out.append({"verb": verb, "dir": d, "exc": exc, "subs": [s], "objs": [o], "anything": False})
    return out


def plan(tier, seed):
    specs = []
    nsh = 8 if tier == "quick" else 16
    if tier == "quick":
        ex = [("T1", 1), ("T2", 4), ("T3", 4), ("T4", 4)]  # (tree, take every k-th relation)
    else:
        ex = [("T1", 1), ("T2", 1), ("T3", 1), ("T4", 1), ("U1", 16)]
    for i in range(nsh):
        specs.append({"kind": "exhaustive", "trees": ex, "part": i, "parts": nsh})
    nrand = 6 if tier == "quick" else 16
    per = 2500 if tier == "quick" else 40000
    for i in range(nrand):
        specs.append({"kind": "random", "n": per})
    for i in range(2 if tier == "quick" else 8):
        specs.append({"kind": "big", "n": 10 if tier == "quick" else 150})
    return specs


def run_shard(spec, acc):
    if spec["kind"] == "exhaustive":
        exhaustive(spec, acc)
    elif spec["kind"] == "big":
        big(spec, acc)
    else:
        randomised(spec, acc)


def very_deep_chain(rnd, acc):
    """A package nested deeper than the interpreter's recursion limit (1100-1300 levels): legal, absurd, and a trap for
    any recursive walk over the module tree."""
    depth = rnd.randint(1100, 1300)
    chain = ["r.p"]
    for k in range(depth):
        chain.append(chain[-1] + f".d{k % 7}")
    mods = ["r"] + chain + ["r.x", "r.y", "r.y.s"]
    imps = sorted({("r.x", chain[-1]), (chain[depth // 2], "r.y.s"), ("r.y", chain[3]), (chain[-1], "r.x")} - set(rnd.sample([("r.x", chain[-1]), ("r.y", chain[3])], 1)))
    ev = build(mods, imps, check=False)
    from ..monitors import HUB as _H

    _H.register_truth(ev, set(mods), set(imps))
    for verb in rrule.VERBS:
        for d in rrule.DIRS:
            for exc in (False, True):
                cfg = {"verb": verb, "dir": d, "exc": exc, "subs": [("named", "r.x")], "objs": [("named", "r.p")], "anything": False}
                _eval(ev, ["r", "r.p", "...", "r.x", "r.y", "r.y.s"], imps, cfg, acc, nontrivial_key=0)
    for cfg in ({"verb": "should_not", "dir": "import", "exc": False, "subs": [("sub", "r.p")], "objs": [], "anything": True}, {"verb": "should_not", "dir": "be", "exc": True, "subs": [("named", "r.y")], "objs": [("sub", "r.p")], "anything": False}):
        _eval(ev, ["r", "r.p", "...", "r.x", "r.y", "r.y.s"], imps, cfg, acc, nontrivial_key=0)
    acc.count("very_deep_chains")


def big(spec, acc):
    """Magnitudes: 80-250 modules, depth up to 12, hundreds of imports, batches of 10-60 subjects / objects, long names,
    many numbered siblings (n2 / n10 / n100), one module with very many importers."""
    rnd = random.Random(spec["seed"])
    from ..drive import LEAF_NAMES

    names = LEAF_NAMES + [f"n{i}" for i in range(130)] + ["x" * 70, "a_rather_long_package_name_" * 9]
    very_deep_chain(rnd, acc)
    for _ in range(spec["n"]):
        mods = random_tree(rnd, 80, 250, depth=rnd.choice([3, 6, 12]), names=names)
        cand = [m for m in mods if m != "r"]
        hub = rnd.choice(cand)
        imps = set(random_imports(rnd, mods, k_max=rnd.choice([60, 300, 900])))
        for m in rnd.sample(cand, min(len(cand), rnd.choice([30, 70, 130, 200]))):
            if m != hub and not related(m, hub):
                imps.add((m, hub))
        # ... and one module that imports very many others
        spender = rnd.choice([m for m in cand if m != hub])
        for m in rnd.sample(cand, min(len(cand), rnd.choice([30, 70, 130, 200]))):
            if m != spender and not related(m, spender):
                imps.add((spender, m))
        imps = sorted(imps)
        ev = build(mods, imps)
        # every rule shape about the heavily imported / heavily importing module itself
        inside = lambda c, m: m == c or m.startswith(c + ".")  # noqa: E731
        for centre, others in ((hub, sorted({a for a, b in imps if inside(hub, b) and not inside(hub, a)})), (spender, sorted({b for a, b in imps if inside(spender, a) and not inside(spender, b)}))):
            # an importer below another importer is already covered by naming the upper one (batches stay unrelated)
            others = [o for o in others if not any(is_ancestor(p, o) for p in others)]
            acc.hist("big_fan_of_rule_subject", f"{len(others) // 32 * 32}+")
            for verb in rrule.VERBS:
                for d in rrule.DIRS:
                    for exc, variant in itertools.product((False, True), ("few", "all", "all-but-one", "strangers")):
                        # a few of the partners, all of them (then nothing else is left over), all but one, or none of them
                        objs = {"few": lambda: rnd.sample(others, min(len(others), rnd.randint(1, 3))), "all": lambda: list(others), "all-but-one": lambda: list(others)[1:], "strangers": lambda: pick_unrelated(rnd, mods, 2, avoid=[centre])}[variant]()
                        objs = [o for o in objs if not related(o, centre) and o != centre]
                        if not objs:
                            continue
                        cfg = {"verb": verb, "dir": d, "exc": exc, "subs": [(rnd.choice(["named", "sub"]), centre)], "objs": [("named", o) for o in objs], "anything": False}
                        if rnd.random() < 0.3:
                            cfg["subs"], cfg["objs"] = cfg["objs"], cfg["subs"]
                        _eval(ev, mods, imps, cfg, acc, list_form=True)
            for d in rrule.DIRS:
                _eval(ev, mods, imps, {"verb": "should_not", "dir": d, "exc": False, "subs": [("named", centre)], "objs": [], "anything": True}, acc, list_form=True)
            acc.count("big_fan_rule_families")
        for _k in range(6):
            skind, okind = rnd.choice(["named", "named", "sub"]), rnd.choice(["named", "named", "sub"])
            subs = pick_unrelated(rnd, mods, rnd.randint(10, 60), kind=skind)
            objs = pick_unrelated(rnd, mods, rnd.randint(10, 60), avoid=subs, kind=okind)
            if len(subs) < 5 or len(objs) < 5:
                objs = objs or pick_unrelated(rnd, mods, 3, avoid=subs)
                if not subs or not objs:
                    continue
            cfg = {"verb": rnd.choice(rrule.VERBS), "dir": rnd.choice(rrule.DIRS), "exc": rnd.random() < 0.5, "subs": [(skind, s) for s in subs], "objs": [(okind, o) for o in objs], "anything": False}
            if rnd.random() < 0.15:
                cfg = {"verb": "should_not", "dir": cfg["dir"], "exc": False, "subs": cfg["subs"][:1], "objs": [], "anything": True}
            _eval(ev, mods, imps, cfg, acc, list_form=True)
            acc.count("big_cases")
            acc.hist("big_batch_size", f"{len(cfg['subs']) // 10 * 10}+x{len(cfg['objs']) // 10 * 10}+")


def _eval(ev, mods, imps, cfg, acc, nontrivial_key=None, list_form=None):
    HUB.case = {"kind": "rule", "mods": mods, "imps": imps, "cfg": cfg, "list_form": list_form}
    before = acc.counters["c01_judged"]
    run(mk_rule(cfg, list_form, retarget=_decoy(ev, mods, cfg), copied=_copy_plan(mods, cfg)), ev)
    acc.evaluated()
    if imps and acc.counters["c01_judged"] > before:
        acc.nontrivial(nontrivial_key if nontrivial_key is not None else {"m": mods, "i": imps, "c": cfg})


def _copy_plan(mods, cfg):
    """Every seventh rule (by content, other ones than the re-targeted ones) is finished on a deep copy / on an unpickled
    copy of a kept rule prefix whose original is finished with a decoy object (or the other way round)."""
    k = (len(cfg["subs"]) * 5 + len(cfg["objs"]) * 3 + len(cfg["subs"][0][1]) + (len(cfg["objs"][0][1]) if cfg["objs"] else 0) + len(cfg["verb"])) % 7
    if k != 1:
        return None
    others = [m for m in mods if "." in m and m not in {n for _, n in cfg["objs"]}]
    return ("deepcopy" if len(cfg["subs"][0][1]) % 2 else "pickle", others[len(others) // 3]) if others else None


def _decoy(ev, mods, cfg):
    """Every seventh rule (by content) is built by re-targeting a kept, already applied rule prefix."""
    if (len(cfg["subs"]) * 5 + len(cfg["objs"]) * 3 + len(cfg["subs"][0][1]) + (len(cfg["objs"][0][1]) if cfg["objs"] else 0) + len(cfg["verb"])) % 7:
        return None
    others = [m for m in mods if "." in m and m not in {n for _, n in cfg["objs"]}]
    return (ev, others[len(others) // 2]) if others else None


def exhaustive(spec, acc):
    tid = 0
    for tname, step in spec["trees"]:
        tid += 1
        tree = (SMALL_TREES | BIG_TREES)[tname]
        mods = ["r"] + tree
        pairs = tree_pairs(tree)
        rules = rules_for_tree(tree, mods)
        total = 1 << len(pairs)
        idx = 0
        for bits in range(0, total, step):
            idx += 1
            if idx % spec["parts"] != spec["part"]:
                continue
            imps = [pairs[j] for j in range(len(pairs)) if bits >> j & 1]
            ev = build(mods, imps)
            for ri, cfg in enumerate(rules):
                _eval(ev, mods, imps, cfg, acc, nontrivial_key=(1 << 70) | (tid << 50) | (bits << 14) | ri)
            acc.count("relations")
        acc.hist("exhaustive_tree", f"{tname}:pairs={len(pairs)}:rules={len(rules)}:every={step}")
        if step == 1:
            acc.flags[f"exhaustive_{tname}"] = True
    if spec["part"] == 0:
        acc.sample({"kind": "exhaustive", "tree": SMALL_TREES["T1"], "imports": [("r.a.x", "r.b")], "rule": rules_for_tree(SMALL_TREES["T1"], ["r"] + SMALL_TREES["T1"])[5]})


def random_cfg(rnd, mods):
    verb = rnd.choice(rrule.VERBS)
    d = rnd.choice(rrule.DIRS)
    exc = rnd.random() < 0.5
    skind = rnd.choice(["named", "named", "sub"])
    okind = rnd.choice(["named", "named", "sub"])
    if rnd.random() < 0.08:
        # the subject lies inside an excepted object: 'X should not import anything except its package P'
        from ..refmodel.names import ancestors as _anc

        deep = [m for m in mods if m.count(".") >= 2]
        if deep:
            x = rnd.choice(deep)
            p = rnd.choice([a for a in _anc(x) if a != "r"] or [x.rsplit(".", 1)[0]])
            extra = [m for m in mods if m != "r" and not related(m, x) and not related(m, p)]
            objs = [p] + (rnd.sample(extra, 1) if extra and rnd.random() < 0.4 else [])
            return {"verb": rnd.choice(["should", "should_not"]), "dir": d, "exc": True, "subs": [("named", x)], "objs": [("named", o) for o in objs], "anything": False}
    if rnd.random() < 0.08:
        # nested lists on one side ('sub modules of [P, P.q]'): per-pair import requirements stay well defined
        nested = [(a, b) for a in mods for b in mods if a != "r" and is_ancestor(a, b)]
        if nested:
            a, b = rnd.choice(nested)
            side = [a, b] if rnd.random() < 0.5 else [b, a]
            free = [m for m in mods if m != "r" and not related(m, a)]
            if free:
                other = [rnd.choice(free)]
                nested_objs = rnd.random() < 0.6
                subs_, objs_ = (other, side) if nested_objs else (side, other)
                return {"verb": rnd.choice(["should", "should_not"]), "dir": d, "exc": False, "subs": [(skind, s) for s in subs_], "objs": [(okind, o) for o in objs_], "anything": False, "nested_side": True}
    subs = pick_unrelated(rnd, mods, rnd.randint(1, 3), kind=skind)
    if not subs:
        return None
    if rnd.random() < 0.12:
        batch = subs if rnd.random() < 0.5 else subs[:1]  # several subjects: judged by the sound lower bound only
        if rnd.random() < 0.4:
            # subjects whose names coincide once a dot is read as "any character" (r.a.b next to r.a_b.x / r.a-b.x)
            import re as _re

            twins = [(a, b) for a in mods for b in mods if a != "r" and not related(a, b) and _re.fullmatch(_re.escape(a).replace("\\.", ".") + r"\..+", b)]
            if twins:
                batch = list(rnd.choice(twins))
                rnd.shuffle(batch)
        return {"verb": "should_not", "dir": d, "exc": False, "subs": [(skind, x) for x in batch], "objs": [], "anything": True}
    objs = pick_unrelated(rnd, mods, rnd.randint(1, 3), avoid=subs, kind=okind)
    if not objs:
        return None
    if rnd.random() < 0.06:
        subs = subs + [rnd.choice(subs)]  # the same name given twice
    if rnd.random() < 0.06:
        objs = [rnd.choice(objs)] + objs
    return {"verb": verb, "dir": d, "exc": exc, "subs": [(skind, s) for s in subs], "objs": [(okind, o) for o in objs], "anything": False}


def switch_anything_alias(ev, mods, imps, rnd, acc):
    """ONE rule object: '<subject> should not import anything' is applied, then the same object is switched to
    'be imported by anything' (and back) and applied again.  Each application is judged on the configuration the
    object has at that moment."""
    from pytestarch import Rule

    subs = pick_unrelated(rnd, mods, 1)
    if not subs:
        return
    kind = rnd.choice(["named", "named", "sub"])
    r = Rule().modules_that()
    r = r.are_named(subs[0]) if kind == "named" else r.are_sub_modules_of(subs[0])
    r = r.should_not()
    order = ["import_anything", "be_imported_by_anything"]
    if rnd.random() < 0.5:
        order.reverse()
    for step, name in enumerate(order + order[:1]):
        getattr(r, name)()
        HUB.case = {"kind": "switch-anything", "mods": mods, "imps": imps, "subject": [kind, subs[0]], "order": order, "step": step}
        run(r, ev)
        acc.evaluated()
    acc.count("rule_objects_switched_between_anything_aliases")


def interleaved_construction(ev, mods, imps, rnd, acc, forced=None):
    """2-4 rule objects are under construction at the same time (their fluent calls interleaved at random), then applied
    in another order: every object must carry exactly what was said to IT."""
    from ..drive import mk_rules_interleaved, random_interleaving

    if forced:
        cfgs, order, eval_order, lf = forced
    else:
        cfgs = [c for c in (random_cfg(rnd, mods) for _ in range(rnd.randint(2, 4))) if c is not None]
        if len(cfgs) < 2:
            return
        lf = rnd.random() < 0.5
        order = random_interleaving(rnd, cfgs, lf)
        eval_order = list(range(len(cfgs)))
        rnd.shuffle(eval_order)
    rules = mk_rules_interleaved(cfgs, order, lf)
    for k in eval_order:
        HUB.case = {"kind": "interleaved", "mods": mods, "imps": imps, "cfgs": cfgs, "order": order, "eval_order": eval_order, "list_form": lf, "applied": k, "cfg": cfgs[k]}
        run(rules[k], ev)
        acc.evaluated()
    acc.count("rules_built_interleaved", len(cfgs))


def other_containers(ev, mods, imps, cfg, form, acc):
    """The same batches handed over as a tuple / a generator / a map object: if the rule gives a verdict, it is the verdict
    (and the report) of the rule given as lists - which the monitor has just judged."""
    HUB.case = {"kind": "rule", "mods": mods, "imps": imps, "cfg": cfg, "list_form": True}
    base = run(mk_rule(cfg, True), ev)
    HUB.case = {"kind": "rule", "mods": mods, "imps": imps, "cfg": cfg, "list_form": form}
    alt = run(mk_rule(cfg, form), ev)
    acc.evaluated(2)
    acc.count("rules_with_batches_in_another_container")
    # (the REPORT of a rule whose names are members of a str-mixin Enum is a known finding of C03: verdict only)
    if alt[0] in ("pass", "fail") and (alt[0] != base[0] or (form != "enum" and alt[1] is not None and base[1] is not None and set(alt[1].split("\n")) != set(base[1].split("\n")))):
        HUB.violation("C01", f"verdict:batch-as-{form}-differs-from-list", f"the same rule with its batches given as a {form} gave {alt[0]}, given as lists {base[0]}", {"as_list": base, f"as_{form}": alt})


def dot_twin_batches(rnd, acc):
    """'anything' over two subjects whose names coincide once a dot is read as "any character" (r.a.b next to
    r.a_b.x, r.a-b.x, r.a·b.x): two different, unrelated modules - judged by the sound lower bound for batches."""
    sep = rnd.choice(["_", "-", "·"])
    deep = rnd.choice(["x", "models", "b"])
    mods = ["r", "r.a", "r.a.b", f"r.a{sep}b", f"r.a{sep}b.{deep}", "r.c", "r.d"]
    pool = [(f"r.a{sep}b.{deep}", "r.c"), ("r.d", f"r.a{sep}b.{deep}"), ("r.a.b", "r.c"), ("r.d", "r.a.b"), ("r.c", "r.d")]
    imps = sorted(rnd.sample(pool, rnd.randint(1, 4)))
    ev = build(mods, imps)
    subs = ["r.a.b", f"r.a{sep}b.{deep}"]
    rnd.shuffle(subs)
    for d in rrule.DIRS:
        cfg = {"verb": "should_not", "dir": d, "exc": False, "subs": [("named", s) for s in subs], "objs": [], "anything": True}
        _eval(ev, mods, imps, cfg, acc, list_form=True)
    acc.count("anything_batches_over_dot_twins")


def anything_rule_looped_over_subjects(ev, mods, imps, rnd, acc, forced=None):
    """ONE 'anything' rule object re-used for one module after the other (rule.modules_that().are_named(next)), with a log
    line - str(rule), which may raise for such a rule - before each application: every application is the rule for the
    subject given last."""
    from pytestarch import Rule

    from ..drive import ANY_METHOD

    if forced:
        subs, d, kind = forced["subjects"], forced["dir"], forced["kind_"]
    else:
        kind = rnd.choice(["named", "named", "sub"])
        subs = pick_unrelated(rnd, mods, rnd.randint(2, 4), kind=kind)
        d = rnd.choice(rrule.DIRS)
    if len(subs) < 2:
        return
    flt = "are_named" if kind == "named" else "are_sub_modules_of"
    rule = getattr(Rule().modules_that(), flt)(subs[0]).should_not()
    getattr(rule, ANY_METHOD[d])()
    steps = []
    for i, s in enumerate(subs):
        if i:
            getattr(rule.modules_that(), flt)(s)
        try:
            str(rule)
        except Exception:  # noqa: BLE001
            pass
        HUB.case = {"kind": "anything-loop", "mods": mods, "imps": imps, "subjects": list(subs), "dir": d, "kind_": kind, "step": i}
        steps.append(((kind, s), d, run(rule, ev)))
        acc.evaluated()
    acc.count("anything_rule_objects_looped_over_subjects")
    return steps


def private_internals(rnd, acc, forced=None):
    """'The internals of X are private to X': sub modules of X should (not) be imported by / import anything except X, on
    architectures in which X itself imports its own (deep) descendants and they import X."""
    if forced:
        mods, imps, x = forced["mods"], [tuple(i) for i in forced["imps"]], forced["x"]
    else:
        mods = random_tree(rnd, 7, 12)
        pk = [m for m in mods if m != "r" and any(is_ancestor(m, y) for y in mods)]
        if not pk:
            return
        x = rnd.choice(pk)
        desc = [m for m in mods if is_ancestor(x, m)]
        imps = set(random_imports(rnd, mods, k_max=8))
        for _ in range(rnd.randint(1, 4)):
            d = rnd.choice(desc)
            e = (x, d) if rnd.random() < 0.6 else (d, x)
            if not (is_ancestor(e[0], e[1]) and e[1].count(".") == e[0].count(".") + 1):
                imps.add(e)
        imps = sorted(imps)
    ev = build(mods, imps)
    for verb in ("should", "should_not"):
        for d in rrule.DIRS:
            cfg = {"verb": verb, "dir": d, "exc": True, "subs": [("sub", x)], "objs": [("named", x)], "anything": False}
            HUB.case = {"kind": "private-internals", "mods": mods, "imps": imps, "x": x}
            run(mk_rule(cfg), ev)
            acc.evaluated()
    acc.count("private_internals_idiom_cases")


def randomised(spec, acc):
    rnd = random.Random(spec["seed"])
    done = 0
    while done < spec["n"]:
        mods = random_tree(rnd)
        imps = random_imports(rnd, mods, k_max=12)
        ev = build(mods, imps)
        if rnd.random() < 0.3:
            switch_anything_alias(ev, mods, imps, rnd, acc)
        if rnd.random() < 0.2:
            dot_twin_batches(rnd, acc)
        if rnd.random() < 0.25:
            interleaved_construction(ev, mods, imps, rnd, acc)
        if rnd.random() < 0.3:
            anything_rule_looped_over_subjects(ev, mods, imps, rnd, acc)
        if rnd.random() < 0.3:
            private_internals(rnd, acc)
        for _ in range(12):
            cfg = random_cfg(rnd, mods)
            if cfg is None:
                continue
            lf = rnd.random() < 0.5
            _eval(ev, mods, imps, cfg, acc, list_form=lf)
            if rnd.random() < 0.08 and len(cfg["subs"]) + len(cfg["objs"]) > 2:
                other_containers(ev, mods, imps, cfg, rnd.choice(["tuple", "generator", "map"]), acc)
            if rnd.random() < 0.06:
                # the same names as instances of a str subclass / members of a str-mixin Enum or a StrEnum
                other_containers(ev, mods, imps, cfg, rnd.choice(["strsub", "enum", "strenum"]), acc)
                acc.count("rules_with_names_of_another_str_type")
            if rnd.random() < 0.05:
                other_containers(ev, mods, imps, cfg, "statements", acc)
                acc.count("rules_written_as_statements_on_one_name")
            if rnd.random() < 0.05:
                other_containers(ev, mods, imps, cfg, "keywords", acc)
                acc.count("rules_with_arguments_passed_by_keyword")
            done += 1
            acc.hist("batch_size", f"{len(cfg['subs'])}x{len(cfg['objs'])}")
            if done % 25 == 0 and cfg["objs"] and not cfg["anything"] and cfg["objs"][0][0] != "regex":
                # the same architecture is then asked - twice, by two fresh rule objects - about a module that does not
                # exist (a typo of one of the objects): whatever the library answers, it cannot be a report about that module
                typo = cfg["objs"][0][1] + "_typo"
                if typo not in mods:
                    bad = dict(cfg, objs=[(cfg["objs"][0][0], typo)] + list(cfg["objs"][1:]))
                    HUB.case = {"kind": "rule", "mods": mods, "imps": imps, "cfg": bad, "list_form": lf, "twice": True}
                    for _ in range(2):
                        run(mk_rule(bad, lf), ev)
                        acc.evaluated()
                    acc.count("rules_naming_an_absent_module_applied_twice_to_one_architecture")
            if done % 997 == 1:
                acc.sample({"kind": "random", "modules": mods, "imports": imps, "rule": cfg})


def replay(case, acc):
    if case.get("kind") == "private-internals":
        return private_internals(random.Random(0), acc, forced=case)
    if case.get("kind") == "anything-loop":
        ev = build(case["mods"], [tuple(i) for i in case["imps"]])
        return anything_rule_looped_over_subjects(ev, case["mods"], [tuple(i) for i in case["imps"]], random.Random(0), acc, forced=case)
    if case.get("twice"):
        cfg = dict(case["cfg"], subs=[tuple(x) for x in case["cfg"]["subs"]], objs=[tuple(x) for x in case["cfg"]["objs"]])
        ev = build(case["mods"], [tuple(i) for i in case["imps"]])
        HUB.case = case
        for _ in range(2):
            run(mk_rule(cfg, case.get("list_form")), ev)
        return
    if case.get("kind") == "switch-anything":
        from pytestarch import Rule

        ev = build(case["mods"], [tuple(i) for i in case["imps"]])
        kind, name = case["subject"]
        r = Rule().modules_that()
        r = (r.are_named(name) if kind == "named" else r.are_sub_modules_of(name)).should_not()
        for step, n in enumerate(case["order"] + case["order"][:1]):
            getattr(r, n)()
            HUB.case = dict(case, step=step)
            run(r, ev)
        return
    if case.get("kind") == "interleaved":
        ev = build(case["mods"], [tuple(i) for i in case["imps"]])
        cfgs = case["cfgs"]
        for c in cfgs:
            c["subs"] = [tuple(x) for x in c["subs"]]
            c["objs"] = [tuple(x) for x in c["objs"]]
        interleaved_construction(ev, case["mods"], case["imps"], None, acc, forced=(cfgs, case["order"], case["eval_order"], case["list_form"]))
        return
    ev = build(case["mods"], [tuple(i) for i in case["imps"]])
    HUB.case = case
    cfg = case["cfg"]
    cfg["subs"] = [tuple(s) for s in cfg["subs"]]
    cfg["objs"] = [tuple(o) for o in cfg["objs"]]
    run(mk_rule(cfg, case.get("list_form")), ev)


SHAPES = [f"{v}/{d}/{e}" for v in rrule.VERBS for d in rrule.DIRS for e in ("plain", "except")] + [
    "should_not/import/anything",
    "should_not/be/anything",
]


def floors(acc, tier):
    why = []
    h = acc.hists.get("c01_shape_outcome", {})
    for s in SHAPES:
        for o in ("pass", "fail"):
            if h.get(f"{s}:{o}", 0) == 0:
                why.append(f"shape {s} never observed with outcome {o}")
    if acc.counters["rule_objects_switched_between_anything_aliases"] < 100:
        why.append(f"only {acc.counters['rule_objects_switched_between_anything_aliases']} rule objects switched between the two 'anything' aliases")
    if acc.counters["big_cases"] < 50:
        why.append(f"only {acc.counters['big_cases']} evaluations on big architectures (80+ modules, batches of 10+)")
    for how in ("deepcopy", "pickle"):
        if acc.counters["rules_finished_on_a_copy_of_a_kept_prefix:" + how] < 100:
            why.append(f"only {acc.counters['rules_finished_on_a_copy_of_a_kept_prefix:' + how]} rules finished on a {how} copy of a kept prefix")
    if acc.counters["rules_written_as_statements_on_one_name"] < 100:
        why.append("too few rules written as statements on one name")
    if acc.counters["rules_with_names_of_another_str_type"] < 100:
        why.append(f"only {acc.counters['rules_with_names_of_another_str_type']} rules with names of another str type")
    if acc.counters["rules_retargeted_after_application"] < 100:
        why.append(f"only {acc.counters['rules_retargeted_after_application']} rules built by re-targeting an applied rule prefix")
    if acc.counters["rules_with_batches_in_another_container"] < 100:
        why.append(f"only {acc.counters['rules_with_batches_in_another_container']} rules with batches given as tuple / generator / map")
    if acc.counters["rules_built_interleaved"] < 100:
        why.append(f"only {acc.counters['rules_built_interleaved']} rules built while other rules were under construction")
    if acc.counters["c01_judged_nested_lists"] < 100:
        why.append(f"only {acc.counters['c01_judged_nested_lists']} rules with nested module lists on one side judged")
    if acc.counters["c01_judged"] < 10000:
        why.append(f"strict oracle judged only {acc.counters['c01_judged']} evaluations")
    acc.flags["exhaustive"] = bool(acc.flags.get("exhaustive_T1"))
    acc.flags["exhaustive_subspaces"] = "every import relation over tree T1 (and T2-T4 in the thorough tier) x every single-subject/single-object rule with unrelated ends"
    return why
