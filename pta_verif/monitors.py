"""Online monitors at pytestarch's public API boundary.

install() wraps the real callables of the code under observation (the working tree
of /repo) from outside; nothing in the repository is edited.  Every crossing of the
boundary becomes an Event; judges compare it on the spot with the executable
reference models (refmodel/*), invariant hooks run at the quiescent points before and
after each evaluation, and every fluent call is appended to the per-object trace that
the specification automata (refmodel/automata.py) read.

The monitors do not care who drives the API: the workloads under props/ do, and so does
the repository's own test-suite when run with pytest_plugin.py.
"""
from __future__ import annotations

import functools
import inspect
import os
import re
from dataclasses import dataclass, field

from . import boot  # noqa: F401  (sys.path)
from .budget import StepBudgetExceeded, step_budget, steps_of_last_call
from .core import Acc
from .refmodel import msgparse, rules as rrule
from .refmodel.names import is_ancestor

# ---------------------------------------------------------------------------------
# hub
# ---------------------------------------------------------------------------------


@dataclass
class Event:
    api: str
    cfg: dict
    outcome: str  # "pass" | "fail" | "error"
    message: str | None
    exc_type: str | None
    evaluable_id: int
    truth: tuple | None = None  # (mods, imps)
    extra: dict = field(default_factory=dict)


class Hub:
    def __init__(self) -> None:
        self.acc: Acc = Acc()
        self.installed = False
        self.active = True
        self.case = None  # replayable description of what the driver is doing
        self.log: list[Event] = []
        self.keep_log = False
        self.truth: dict[int, tuple] = {}  # id(ev) -> (ev, mods, imps)
        self.puml_truth: dict[str, tuple] = {}
        self.draw_calls: list = []
        self.scan_events: list = []
        self.judges = {"C01", "C03", "C05", "C06", "C07", "C13", "C15", "C16", "C17", "SCAN"}
        self.depth = 0
        self.tag = None  # label set by a driver so that offline checkers can find their operands in the log

    def reset(self, acc: Acc | None = None) -> None:
        self.acc = acc or Acc()
        self.log.clear()
        self.truth.clear()
        self.puml_truth.clear()
        self.draw_calls.clear()
        self.scan_events.clear()
        self.case = None

    def violation(self, prop: str, key: str, what: str, witness) -> None:
        self.acc.violation(f"{prop}:{key}", what, witness, self.case)
        if key.endswith("does-not-terminate"):
            from .budget import abort_if_hopeless

            abort_if_hopeless()

    def register_truth(self, ev, mods, imps) -> None:
        """The registry must not keep the architecture alive: in a real process architectures die and their addresses
        are re-used, and state a library keyed by id() only shows then.  A weak reference with a finalizer that drops the
        entry (so that the registry itself never serves a stale entry to a new object at the same address)."""
        import weakref

        key = id(ev)
        try:
            ref = weakref.ref(ev, lambda _r, k=key, t=self.truth: t.pop(k, None) if (t.get(k) or (None,))[0] is _r else None)
        except TypeError:
            ref = (lambda e=ev: e)  # not weakly referenceable: keep it (as before)
        self.truth[key] = (ref, frozenset(mods), frozenset(imps))


HUB = Hub()

# ---------------------------------------------------------------------------------
# graph state (read from the raw networkx object, never through accessors under test)
# ---------------------------------------------------------------------------------


def raw_graph(evaluable):
    g = getattr(evaluable, "_graph", None)
    g = getattr(g, "_graph", None)
    if g is None or not hasattr(g, "edges"):
        return None
    return g


def graph_state(evaluable):
    g = raw_graph(evaluable)
    if g is None:
        return None
    try:
        return (
            frozenset(g.nodes),
            frozenset((a, b, d.get("inherits")) for a, b, d in g.edges(data=True)),
        )
    except Exception:
        return None


def truth_from_state(state):
    mods = state[0]
    imps = frozenset((a, b) for a, b, inh in state[1] if not inh)
    return mods, imps


def hierarchy_problems(state) -> list[str]:
    """Hierarchy invariant (DESIGN 1): every inherits edge goes from a module to a
    one-component extension of it; every non-root module has exactly that one hierarchy
    parent."""
    mods, edges = state
    probs = []
    inh = {(a, b) for a, b, i in edges if i}
    for a, b in inh:
        pa, pb = a.split("."), b.split(".")
        if not (len(pb) == len(pa) + 1 and pb[:-1] == pa):
            probs.append(f"hierarchy edge {a} -> {b} is not parent -> child")
    imp = {(a, b) for a, b, i in edges if not i}
    for m in mods:
        p = m.rsplit(".", 1)
        if len(p) == 2:
            parent = p[0]
            if parent not in mods:
                probs.append(f"module {m} present without its parent {parent}")
            elif (parent, m) not in inh and (parent, m) not in imp:
                probs.append(f"module {m} not linked to its parent {parent}")
    return probs


# ---------------------------------------------------------------------------------
# snapshots of rule objects (state hook: read before the call, the alias rewrite
# mutates the configuration)
# ---------------------------------------------------------------------------------


def _filt(f):
    if getattr(f, "identifier_is_regex", False):
        kind = "regex"
    elif getattr(f, "identifier_is_parent_module", False):
        kind = "sub"
    else:
        kind = "named"
    ident = f.identifier
    if isinstance(ident, str) and type(ident) is not str:
        ident = ident[:]  # the value of a str-subclass instance
    return (kind, ident)


_FILTER_KIND = {"are_named": "named", "are_sub_modules_of": "sub", "have_name_matching": "regex"}


def _intent_from_trace(rule):
    """Subjects / objects as the caller specified them LAST (a kept rule prefix may be completed several times; the
    last specification of a side is the rule).  None when the trace cannot tell (no trace, partial-name filters)."""
    tr = rule.__dict__.get(TRACE_ATTR)
    if not tr:
        return None
    slot, subs, objs = None, None, None
    for name, args, res in tr:
        if res != "ok":
            continue
        if name == "modules_that":
            slot = "s"
        elif name.startswith("import_") or name.startswith("be_imported_by_"):
            slot = "o"
        elif name == "have_name_containing":
            return None
        elif name in _FILTER_KIND and slot and args:
            a = args[0]
            names = a if isinstance(a, list) else [a]
            if not all(isinstance(x, str) and not (x.startswith("<") and x.endswith(">")) for x in names):
                return None  # an argument the trace recorder could not copy (iterator, generator, ...)
            flt = [(_FILTER_KIND[name], x) for x in names]
            if slot == "s":
                subs = flt
            else:
                objs = flt
    if subs is None:
        return None
    return subs, objs


def _canonical_from_trace(rule):
    """For a canonical chain (modules_that, filter, verb, import type[, filter]) the builder trace alone says what the
    rule is: verb, direction, except and 'anything' are taken from the CALLS the caller made, not from whatever flags the
    library derived from them."""
    from .refmodel import automata as A

    tr = [e for e in (rule.__dict__.get(TRACE_ATTR) or []) if e[2] == "ok" and e[0] != "assert_applies"]
    h = [e[0] for e in tr]
    # a kept rule object whose SUBJECT is re-targeted afterwards (rule.modules_that().are_named(next), the loop over modules
    # with one rule object): verb, direction, except and 'anything' stay what the chain said
    while len(h) >= 6 and h[-2] == "modules_that" and h[-1] in A.RULE_FILTERS:
        h = h[:-2]
    ok = (
        len(h) in (4, 5)
        and h[0] == "modules_that"
        and h[1] in A.RULE_FILTERS
        and h[2] in A.RULE_VERBS
        and h[3] in A.RULE_IMPORT
        and ((len(h) == 5 and h[4] in A.RULE_FILTERS and not A.RULE_IMPORT[h[3]][2]) or (len(h) == 4 and A.RULE_IMPORT[h[3]][2]))
    )
    if not ok:
        return None
    d, exc, anything = A.RULE_IMPORT[h[3]]
    return {"verb": h[2], "verbs": [h[2]], "dir": d, "exc": exc, "anything": anything}


def snapshot_rule(rule) -> dict:
    cfg = _snapshot_rule_config(rule)
    try:
        intent = _intent_from_trace(rule)
        canon = _canonical_from_trace(rule)
    except Exception:  # noqa: BLE001
        intent, canon = None, None
    if canon is not None and intent is not None:
        derived = {k: cfg[k] for k in ("verb", "verbs", "dir", "exc", "anything")}
        if derived != canon:
            if cfg["exc"] and not cfg["anything"] and canon["anything"]:
                # an applied 'anything' rule may be stored as 'except itself' (the library's alias conversion): the rule is
                # still what the caller said - 'anything' over ALL the subjects given, also those the conversion dropped
                HUB.acc.count("applied_anything_rules_judged_by_the_calls_the_caller_made")
                cfg["subs"] = list(intent[0])
            else:
                HUB.acc.count("rule_flags_differ_from_the_calls_the_caller_made")
            cfg.update(canon)
            if canon["anything"]:
                cfg["objs"] = []
    if intent is not None and not cfg["anything"]:
        subs, objs = intent
        if objs is not None and (subs != cfg["subs"] or objs != cfg["objs"]) and not any(k == "regex" for k, _ in cfg["subs"] + cfg["objs"]):
            HUB.acc.count("rule_configuration_differs_from_what_the_caller_specified_last")
            cfg["subs"], cfg["objs"] = subs, objs
    return cfg


def _snapshot_rule_config(rule) -> dict:
    c = rule._configuration
    verbs = [v for v in rrule.VERBS if getattr(c, v)]
    from pytestarch.rule_assessment.rule_check.rule_matcher import DefaultRuleMatcher

    return {
        "verbs": verbs,
        "verb": verbs[0] if len(verbs) == 1 else "+".join(verbs) or None,
        "dir": "import" if c.import_ is True else "be" if c.import_ is False else None,
        "exc": bool(c.except_present),
        "subs": [_filt(f) for f in (c.modules_to_check or [])],
        "objs": [_filt(f) for f in (c.modules_to_check_against or [])],
        "anything": bool(c.rule_object_anything),
        "default_matcher": rule._rule_matcher_class is DefaultRuleMatcher,
        # names that are instances of a str subclass whose format() is not their value (members of a str-mixin Enum):
        # {formatted text: value}
        "odd_formats": {format(f.identifier): f.identifier[:] for f in list(c.modules_to_check or []) + list(c.modules_to_check_against or []) if isinstance(f.identifier, str) and format(f.identifier) != f.identifier[:]},
    }


# ---------------------------------------------------------------------------------
# trace recording (fluent calls) -> per-object list on the instance
# ---------------------------------------------------------------------------------

RULE_BUDGET = 3_000_000  # function starts inside pytestarch per assert_applies (ordinary: 10^2..10^5)


def rule_budget(state, factor=1):
    """The library compares every matched subject with every matched object (about 30 function starts per pair), so the
    budget grows with the square of the architecture's size: 10x what a rule matching ALL modules on both sides needs."""
    n = len(state[0]) if state else 0
    return factor * (RULE_BUDGET + 300 * n * n)


SCAN_BUDGET = 60_000_000  # per get_evaluable_architecture (ordinary: 10^3..10^6)
TRACE_ATTR = "_pta_trace"
POST_HOOKS: dict = {}  # class -> [callable(obj, entry)] run after every top-level fluent call (returned or raised)


TRACE_OWNER = "_pta_trace_owner"


def trace_of(obj) -> list:
    """The call history of THIS object.  copy.copy / copy.deepcopy / pickle carry the attribute over to the copy (a shallow
    copy even shares the list): a copy starts with the history of its original up to the moment of copying and continues on
    its own."""
    d = obj.__dict__
    t = d.get(TRACE_ATTR)
    if t is None:
        t = []
        d[TRACE_ATTR] = t
        d[TRACE_OWNER] = id(obj)
    elif d.get(TRACE_OWNER) != id(obj):
        t = [list(e) if isinstance(e, list) else e for e in t]
        d[TRACE_ATTR] = t
        d[TRACE_OWNER] = id(obj)
        HUB.acc.count("objects_recognised_as_copies_of_a_traced_object")
    return t


def _plain(a):
    if isinstance(a, str) and type(a) is not str:
        return a[:]  # the VALUE of a str-subclass instance (an Enum member formats as 'Class.MEMBER')
    if isinstance(a, (str, int, float, bool, type(None))):
        return a
    if isinstance(a, (list, tuple)):
        return [_plain(x) for x in a]
    if isinstance(a, os.PathLike):
        return os.fspath(a)
    return f"<{type(a).__name__}>"


def _run_hooks(cls, obj, entry) -> None:
    for h in POST_HOOKS.get(cls, ()):
        try:
            h(obj, entry)
        except Exception as e:  # noqa: BLE001
            HUB.acc.mark_inconclusive(f"trace hook crashed: {type(e).__name__}: {e}")


def _wrap_fluent(cls, name):
    orig = cls.__dict__[name]
    try:
        sig = inspect.signature(orig)
    except (TypeError, ValueError):
        sig = None

    @functools.wraps(orig)
    def wrapper(self, *args, **kwargs):
        d = self.__dict__
        if not HUB.active or d.get("_pta_in", 0):
            return orig(self, *args, **kwargs)  # nested fluent call: not a boundary crossing
        given = list(args)
        if kwargs:
            # arguments passed by their documented names are the same arguments: recorded in positional order
            try:
                ba = sig.bind(self, *args, **kwargs)
                given = [v for k, v in list(ba.arguments.items())[1:]]
                HUB.acc.count("fluent_calls_with_keyword_arguments")
            except Exception:  # noqa: BLE001
                given = list(args) + list(kwargs.values())
        entry = [name, [_plain(a) for a in given], None]
        trace_of(self).append(entry)
        d["_pta_in"] = 1
        try:
            r = orig(self, *args, **kwargs)
        except BaseException as e:
            # a subclass of the library's configuration error counts as a configuration error
            entry[2] = "ImproperlyConfigured" if any(c.__name__ == "ImproperlyConfigured" for c in type(e).__mro__) else type(e).__name__
            d["_pta_in"] = 0
            _run_hooks(cls, self, entry)
            raise
        finally:
            d["_pta_in"] = 0
        entry[2] = "ok"
        _run_hooks(cls, self, entry)
        return r

    wrapper._pta_orig = orig
    setattr(cls, name, wrapper)


# ---------------------------------------------------------------------------------
# judges for module rules (C01 verdict, C03 report)
# ---------------------------------------------------------------------------------


def _expand_regex(filters, mods):
    out = []
    for kind, name in filters:
        if kind == "regex":
            try:
                pat = re.compile(name)
            except re.error:
                return None
            ms = [m for m in mods if pat.match(m)]
            if not ms:
                return None
            out.extend(("named", m) for m in sorted(ms))
        else:
            out.append((kind, name))
    return out


def judge_module_rule(ev: Event) -> None:
    acc = HUB.acc
    cfg = ev.cfg
    if not cfg["default_matcher"] or ev.truth is None:
        return
    mods, imps = ev.truth
    acc.count("rule_events")
    if len(set(map(tuple, cfg["subs"]))) != len(cfg["subs"]) or len(set(map(tuple, cfg["objs"]))) != len(cfg["objs"]):
        # a module listed twice is the same module: judge the rule over the set of filters
        acc.count("rules_with_duplicate_list_entries")
        cfg = dict(cfg, subs=list(dict.fromkeys(map(tuple, cfg["subs"]))), objs=list(dict.fromkeys(map(tuple, cfg["objs"]))))
        ev = Event(ev.api, cfg, ev.outcome, ev.message, ev.exc_type, ev.evaluable_id, ev.truth, ev.extra)
    ok_domain, why = rrule.strict_domain(cfg, mods)
    acc.hist("c01_domain", why or "strict")
    wellformed = (
        len(cfg["verbs"]) == 1
        and cfg["dir"] is not None
        and cfg["subs"]
        and (cfg["objs"] or cfg["anything"])
        and (not cfg["anything"] or cfg["verb"] == "should_not")
    )
    names_exist = all(n in mods for k, n in cfg["subs"] + cfg["objs"] if k != "regex")
    regex_ok = _expand_regex(cfg["subs"], mods) is not None and _expand_regex(cfg["objs"], mods) is not None
    if "C01" in HUB.judges and wellformed and names_exist and regex_ok and ev.outcome == "error":
        HUB.violation(
            "C01",
            f"exception:{ev.exc_type}",
            f"well-formed rule over existing modules raised {ev.exc_type}",
            {"cfg": cfg, "mods": sorted(mods), "imps": sorted(imps), "message": ev.message},
        )
        return
    if ev.outcome == "error":
        return
    if "C03" in HUB.judges and ev.outcome == "fail" and wellformed and not names_exist and ev.message:
        # a report that speaks about a module the architecture does not have names no offending and no missing import
        absent = [n for k, n in cfg["subs"] + cfg["objs"] if k != "regex" and n not in mods]
        named = [n for n in absent if f'"{n}"' in ev.message]
        acc.count("c03_reports_of_rules_naming_absent_modules")
        if named:
            HUB.violation("C03", "report-names-a-module-that-does-not-exist", f"the report speaks about {named[0]!r}, which is no module of the architecture", {"cfg": cfg, "mods": sorted(mods), "message": ev.message})
            return
    if "C03" in HUB.judges and ev.outcome == "fail" and cfg.get("odd_formats") and ev.message and any(f'"{t}"' in ev.message for t in cfg["odd_formats"]):
        # one mechanism, whatever else the report says: the message generator FORMATS the caller's names
        acc.count("c03_reports_of_rules_with_enum_typed_names")
        shown = sorted(t for t in cfg["odd_formats"] if f'"{t}"' in ev.message)
        HUB.violation("C03", "report-shows-format-of-str-subclass-name", f"the report speaks about {shown[0]!r} (the format() of a str-mixin Enum member) instead of the module {cfg['odd_formats'][shown[0]]!r}", {"cfg": {k: v for k, v in cfg.items() if k != "odd_formats"}, "message": ev.message})
        if "C01" in HUB.judges and ok_domain:
            res = rrule.decide(mods, imps, cfg)
            if res is not None and res[0]:
                HUB.violation("C01", f"verdict:{rrule.shape(cfg)}:false-fail", "assert_applies failed but the documented semantics say holds", {"cfg": {k: v for k, v in cfg.items() if k != "odd_formats"}, "mods": sorted(mods), "imps": sorted(imps), "message": ev.message})
        return
    # -- universal part of C03: positive lines are real imports touching the subject ---
    if "C03" in HUB.judges and ev.outcome == "fail" and wellformed and names_exist and regex_ok:
        _judge_report_universal(ev, mods, imps)
    if not ok_domain:
        if why == "anything-several-subjects" and ev.outcome in ("pass", "fail"):
            _judge_anything_batch(ev, mods, imps)
        if why == "related-subjects-objects" and ev.outcome in ("pass", "fail"):
            _judge_subject_inside_object(ev, mods, imps)
            _judge_private_internals(ev, mods, imps)
        return
    res = rrule.decide(mods, imps, cfg)
    if res is None:
        acc.count("ambiguous_skipped")
        return
    exp_ok, exp_pos, exp_neg = res
    got_ok = ev.outcome == "pass"
    acc.hist("c01_shape_outcome", f"{rrule.shape(cfg)}:{ev.outcome}")
    acc.count("c01_judged")
    from .refmodel.names import pairwise_unrelated as _pu

    if not _pu([n for _, n in cfg["subs"] + cfg["objs"]]):
        acc.count("c01_judged_nested_lists")
    if "C01" in HUB.judges and got_ok != exp_ok:
        HUB.violation(
            "C01",
            f"verdict:{rrule.shape(cfg)}:{'false-pass' if got_ok else 'false-fail'}",
            f"assert_applies {'passed' if got_ok else 'failed'} but the documented semantics say {'holds' if exp_ok else 'violated'}",
            {"cfg": cfg, "mods": sorted(mods), "imps": sorted(imps), "message": ev.message},
        )
        return
    if ev.outcome == "fail" and "C03" in HUB.judges:
        acc.count("c03_judged")
        try:
            pos, neg = msgparse.parse_module_message(ev.message)
        except msgparse.Unparseable as e:
            HUB.violation("C03", "unparseable-line", f"report line not of a documented form: {e}", {"cfg": cfg, "message": ev.message})
            return
        if exp_pos:
            acc.hist("c03_bucket", _bucket(cfg, True))
        if exp_neg:
            acc.hist("c03_bucket", _bucket(cfg, False))
        if pos != exp_pos or neg != exp_neg:
            extra_pos = sorted(pos - exp_pos)
            miss_pos = sorted(exp_pos - pos)
            key = _c03_key(cfg, extra_pos, miss_pos, neg, exp_neg, mods, imps)
            HUB.violation(
                "C03",
                key,
                "violation report differs from the reference violating set",
                {
                    "cfg": cfg,
                    "mods": sorted(mods),
                    "imps": sorted(imps),
                    "message": ev.message,
                    "extra_lines": extra_pos,
                    "missing_lines": miss_pos,
                    "neg_got": sorted(map(repr, neg)),
                    "neg_expected": sorted(map(repr, exp_neg)),
                },
            )


def _judge_private_internals(ev: Event, mods, imps) -> None:
    """'sub modules of X should (not) import / be imported by anything except X' - the internals of X are private to X.
    Subject and object name the same module, so the pair is outside the pairwise-unrelated domain, but 'something else'
    is unambiguous here: X itself is the excepted object under either reading of 'inside the subject', and both readings of
    R-RULE agree (12 000 probe cases on the unchanged library, none ambiguous, none different)."""
    cfg = ev.cfg
    subs = [tuple(x) for x in cfg["subs"]]
    objs = [tuple(x) for x in cfg["objs"]]
    if cfg.get("anything") or not cfg["exc"] or cfg["verb"] not in ("should", "should_not") or len(subs) != 1 or len(objs) != 1:
        return
    if subs[0][0] != "sub" or objs[0] != ("named", subs[0][1]):
        return
    res = rrule.decide(mods, imps, cfg)
    if res is None:
        HUB.acc.count("ambiguous_skipped")
        return
    HUB.acc.count("c01_judged_private_internals_idiom")
    got_ok = ev.outcome == "pass"
    if "C01" in HUB.judges and got_ok != res[0]:
        HUB.violation("C01", f"verdict:{rrule.shape(cfg)}:internals-private-to-their-package:{'false-pass' if got_ok else 'false-fail'}", f"'sub modules of X {cfg['verb']} ... anything except X' {'passed' if got_ok else 'failed'} but the documented semantics say {'holds' if res[0] else 'violated'}", {"cfg": {k: v for k, v in cfg.items() if k != 'odd_formats'}, "mods": sorted(mods), "imps": sorted(imps), "message": ev.message})


def _judge_subject_inside_object(ev: Event, mods, imps) -> None:
    """'X should (not) import / be imported by anything except P' where the single named subject X lies
    inside an object P (every object is an ancestor of X or unrelated to it): 'something else' is
    unambiguous - imports between S(X) and modules outside S(X) and outside all objects."""
    cfg = ev.cfg
    subs = [tuple(s) for s in cfg["subs"]]
    objs = [tuple(o) for o in cfg["objs"]]
    if cfg.get("anything") or not cfg["exc"] or cfg["verb"] not in ("should", "should_not") or len(subs) != 1:
        return
    if subs[0][0] != "named" or any(k != "named" for k, _ in objs):
        return
    x = subs[0][1]
    names = [n for _, n in objs]
    if x not in mods or any(n not in mods for n in names) or len(set(names)) != len(names):
        return
    from .refmodel.names import related

    if not all(is_ancestor(n, x) or not related(n, x) for n in names) or not any(is_ancestor(n, x) for n in names):
        return
    if any(related(a, b) for i, a in enumerate(names) for b in names[i + 1 :]):
        return
    ss = rrule.sel(("named", x), mods)
    oset = set().union(*[rrule.sel(("named", n), mods) for n in names])
    if cfg["dir"] == "import":
        oth = {(a, b) for a, b in imps if a in ss and b not in ss and b not in oset}
    else:
        oth = {(a, b) for a, b in imps if b in ss and a not in ss and a not in oset}
    exp_ok = bool(oth) if cfg["verb"] == "should" else not oth
    HUB.acc.count("subject_inside_object_judged")
    w = {"cfg": cfg, "mods": sorted(mods), "imps": sorted(imps), "message": ev.message, "something_else": sorted(oth)}
    got_ok = ev.outcome == "pass"
    if got_ok != exp_ok and "C01" in HUB.judges:
        HUB.violation("C01", f"verdict:{rrule.shape(cfg)}:subject-inside-object:{'false-pass' if got_ok else 'false-fail'}", f"rule whose subject lies inside an excepted object {'passed' if got_ok else 'failed'} although imports to/from something else {'exist' if oth else 'do not exist'}", w)
    elif not got_ok and cfg["verb"] == "should_not" and "C03" in HUB.judges:
        try:
            pos, _neg = msgparse.parse_module_message(ev.message)
        except msgparse.Unparseable:
            return
        if pos != oth:
            HUB.violation("C03", f"report:{rrule.shape(cfg)}:subject-inside-object", "report differs from the imports to/from something else", dict(w, extra=sorted(pos - oth), missing=sorted(oth - pos)))


def _judge_anything_batch(ev: Event, mods, imps) -> None:
    """'anything' with several subjects: the documentation is ambiguous about imports BETWEEN the
    subjects (ambiguity ii), but under every reading an import that connects a subject with a module
    outside ALL subjects violates the rule and has to be reported.  Sound lower bound for C01/C03."""
    from .refmodel.names import pairwise_unrelated

    cfg = ev.cfg
    subs = [tuple(s) for s in cfg["subs"]]
    if cfg["verb"] != "should_not" or any(k not in ("named", "sub") for k, _ in subs):
        return
    names = [n for _, n in subs]
    if len(set(names)) != len(names) or not pairwise_unrelated(names) or any(n not in mods for n in names):
        return
    union = set()
    for f in subs:
        union |= rrule.sel(f, mods) | {f[1]}  # the parent of 'sub modules of X' is left out of the bound (ambiguity i)
    req = set()
    for f in subs:
        ss = rrule.sel(f, mods)
        for a, b in imps:
            if cfg["dir"] == "import" and a in ss and b not in union:
                req.add((a, b))
            if cfg["dir"] == "be" and b in ss and a not in union:
                req.add((a, b))
    HUB.acc.count("anything_batch_judged")
    w = {"cfg": cfg, "mods": sorted(mods), "imps": sorted(imps), "message": ev.message, "required_lines": sorted(req)}
    if req and ev.outcome == "pass" and "C01" in HUB.judges:
        HUB.violation("C01", f"verdict:should_not/{cfg['dir']}/anything-batch:false-pass", "rule over several subjects passed although a subject imports / is imported by a module outside all subjects", w)
    if ev.outcome == "fail" and "C03" in HUB.judges:
        try:
            pos, _neg = msgparse.parse_module_message(ev.message)
        except msgparse.Unparseable:
            return
        if req - pos:
            HUB.violation("C03", f"missing-line:should_not/{cfg['dir']}/anything-batch", "report of a rule over several subjects misses imports that violate it under every reading", dict(w, missing=sorted(req - pos)))


def _bucket(cfg, positive: bool) -> str:
    v = "should_not" if cfg.get("anything") else cfg["verb"]
    e = True if cfg.get("anything") else cfg["exc"]
    if v == "should_only":
        return f"should_only{'_except' if e else ''}:{'forbidden' if positive else 'no_import'}"
    return f"{v}{'_except' if e else ''}"


def _subject_side(cfg, mods, lenient_parent=True):
    subs = _expand_regex(cfg["subs"], mods) or []
    s = set()
    for f in subs:
        s |= rrule.sel(f, mods)
        if f[0] == "sub" and lenient_parent:
            s.add(f[1])
    return s


def _judge_report_universal(ev: Event, mods, imps) -> None:
    cfg = ev.cfg
    try:
        pos, _neg = msgparse.parse_module_message(ev.message)
    except msgparse.Unparseable:
        return  # judged in the strict part / by C14 as text
    HUB.acc.count("c03_universal_judged")
    side = _subject_side(cfg, mods)
    for a, b in sorted(pos):
        subj_end = a if cfg["dir"] == "import" else b
        if (a, b) not in imps:
            HUB.violation("C03", "reported-non-import", f'report lists "{a}" -> "{b}" which is not an import', {"cfg": cfg, "mods": sorted(mods), "imps": sorted(imps), "message": ev.message})
            return
        if subj_end not in side:
            key = "transitive-importers-reported" if cfg["dir"] == "be" else "unrelated-import-reported"
            HUB.violation("C03", key, f'report lists "{a}" -> "{b}", which does not involve the rule subject', {"cfg": cfg, "mods": sorted(mods), "imps": sorted(imps), "message": ev.message})
            return


def _c03_key(cfg, extra_pos, miss_pos, neg, exp_neg, mods, imps) -> str:
    if extra_pos and not miss_pos and neg == exp_neg:
        side = _subject_side(cfg, mods)
        if all((a if cfg["dir"] == "import" else b) not in side for a, b in extra_pos):
            return "transitive-importers-reported" if cfg["dir"] == "be" else "unrelated-import-reported"
        return f"extra-line:{rrule.shape(cfg)}"
    if miss_pos:
        return f"missing-line:{rrule.shape(cfg)}"
    return f"negative-line:{rrule.shape(cfg)}"


# ---------------------------------------------------------------------------------
# Rule.assert_applies wrapper: purity hook + event + judges
# ---------------------------------------------------------------------------------


def _truth_for(evaluable, state):
    reg = HUB.truth.get(id(evaluable))
    if reg is not None and reg[0]() is evaluable:
        return reg[1], reg[2]
    if state is None:
        return None
    return truth_from_state(state)


def _wrap_rule_assert():
    from pytestarch.query_language.rule import Rule

    orig = Rule.__dict__["assert_applies"]

    @functools.wraps(orig)
    def assert_applies(self, evaluable):
        if not HUB.active:
            return orig(self, evaluable)
        try:
            cfg = snapshot_rule(self)
        except Exception as e:  # noqa: BLE001  internals renamed? then this monitor cannot observe: inconclusive, not a verdict
            HUB.acc.mark_inconclusive(f"Rule monitor cannot read the rule configuration: {type(e).__name__}: {e}")
            return orig(self, evaluable)
        entry = ["assert_applies", [], None]
        trace_of(self).append(entry)
        before = graph_state(evaluable)
        exc = None
        HUB.depth += 1
        try:
            with step_budget(rule_budget(before)):
                orig(self, evaluable)
            outcome, msg, et = "pass", None, None
        except AssertionError as e:
            exc, outcome, msg, et = e, "fail", str(e), "AssertionError"
        except StepBudgetExceeded as e:
            exc, outcome, msg, et = RuntimeError(f"step budget exhausted: {e}"), "error", str(e), "StepBudgetExceeded"
            HUB.violation("C01", "evaluation-does-not-terminate", f"Rule.assert_applies exhausted its step budget ({e}); ordinary evaluations need 10^2..10^5 steps, one matching all {len(before[0]) if before else '?'} modules on both sides a tenth of the budget", {"cfg": cfg, "truth": [sorted(t) for t in (_truth_for(evaluable, before) or ())]})
        except Exception as e:  # noqa: BLE001
            exc, outcome, msg, et = e, "error", str(e), type(e).__name__
        finally:
            HUB.depth -= 1
            if HUB.depth == 0:
                n = steps_of_last_call()
                HUB.acc.hist("steps_per_rule_evaluation_log10", len(str(n)) - 1 if n > 0 else 0)
        entry[2] = "ok" if exc is None else et
        after = graph_state(evaluable)
        _purity(before, after, "Rule.assert_applies", cfg)
        ev = Event("Rule.assert_applies", cfg, outcome, msg, et, id(evaluable), _truth_for(evaluable, before))
        ev.extra["trace"] = list(map(list, trace_of(self)))
        ev.extra["tag"] = HUB.tag
        if HUB.keep_log:
            HUB.log.append(ev)
        self.__dict__["_pta_last_event"] = ev
        try:
            judge_module_rule(ev)
            from . import monitors_trace

            monitors_trace.judge_rule_eval(self, ev)
        except Exception as e:  # a crashing judge must never look like a pass
            HUB.acc.mark_inconclusive(f"judge_module_rule crashed: {type(e).__name__}: {e}")
        if exc is not None:
            try:
                raise exc
            finally:
                exc = None  # no frame <-> traceback cycle: the architecture must be able to die with its last user

    assert_applies._pta_orig = orig
    Rule.assert_applies = assert_applies


def _purity(before, after, api, cfg) -> None:
    if before is None or after is None:
        return
    HUB.acc.count("purity_snapshots")
    if before != after and "C15" in HUB.judges:
        HUB.violation(
            "C15",
            "evaluable-mutated",
            f"{api} changed the evaluable architecture",
            {
                "cfg": cfg,
                "nodes_added": sorted(after[0] - before[0]),
                "nodes_removed": sorted(before[0] - after[0]),
                "edges_added": sorted(map(repr, after[1] - before[1])),
                "edges_removed": sorted(map(repr, before[1] - after[1])),
            },
        )


# ---------------------------------------------------------------------------------
# install
# ---------------------------------------------------------------------------------

RULE_FLUENT = [
    "modules_that",
    "are_sub_modules_of",
    "are_named",
    "have_name_containing",
    "have_name_matching",
    "should",
    "should_only",
    "should_not",
    "import_modules_that",
    "be_imported_by_modules_that",
    "import_modules_except_modules_that",
    "be_imported_by_modules_except_modules_that",
    "import_anything",
    "be_imported_by_anything",
]


def install() -> Hub:
    if HUB.installed:
        return HUB
    boot.assert_tree()
    from pytestarch.query_language.rule import Rule

    for n in RULE_FLUENT:
        _wrap_fluent(Rule, n)
    _wrap_rule_assert()
    from . import monitors_more

    monitors_more.install(HUB)
    from . import monitors_trace

    monitors_trace.install()
    HUB.installed = True
    return HUB
