"""End-to-end soak: files on disk -> scan -> rules / layer rules / diagram rules / plots, interleaved in
one process on architectures that were built by the real scanner (not by the driver).

Nothing here decides anything: the online monitors (R-RULE, R-LAYER, diagram conformance, R-LABEL, purity
hook, R-SCAN) judge every crossing of the boundary, with the raw networkx graph of the scanned
architecture as ground truth.  What this adds to the per-property workloads is the *kind of architecture*:
external modules (with their ancestor packages) next to internal ones, `__init__` modules, ancestors of a
module_path below the root, level-limited graphs, and long interleavings of all rule kinds on the same
architecture objects (state that leaks between features only shows here).
"""
from __future__ import annotations

import os
import random
from pathlib import Path

from . import trees
from .drive import mk_rule, pick_unrelated, run
from .monitors import HUB, graph_state
from .refmodel import rules as rrule
from .refmodel.names import is_ancestor, related

SCAN_CONFIGS = ["default", "include", "include-excl", "level", "below-root", "include-below-root", "file-excl", "module-object", "level-include", "level-below-root", "regex-excl-include"]


def _scan(rnd, root, spec, acc):
    from pytestarch import get_evaluable_architecture

    kind = rnd.choice(SCAN_CONFIGS)
    kw = {}
    mp = root
    dirs = [d for d in trees.all_dirs(spec) if d and "emptydir" not in d]
    if kind in ("include", "include-excl", "include-below-root"):
        kw["exclude_external_libraries"] = False
    if kind == "include-excl":
        kw["external_exclusions"] = rnd.choice([("os*",), ("*handlers",), ("extlib.core",), ("json", "sys")])
    if kind == "level":
        kw["level_limit"] = rnd.choice([1, 2, 3])
    if kind in ("below-root", "include-below-root") and dirs:
        mp = os.path.join(root, rnd.choice(dirs))
    if kind in ("level-include", "regex-excl-include"):
        kw["exclude_external_libraries"] = False
    if kind in ("level-include", "level-below-root"):
        kw["level_limit"] = rnd.choice([1, 2, 3])
    if kind == "level-below-root" and dirs:
        mp = os.path.join(root, rnd.choice(dirs))
    files = sorted(f for f in spec["files"] if f.endswith(".py") and not f.endswith("__init__.py"))
    if kind == "file-excl" and files:
        kw["exclusions"] = tuple("*" + os.path.basename(f) for f in rnd.sample(files, min(len(files), rnd.randint(1, 2))))
    if kind == "regex-excl-include" and files:
        import re as _re

        kw["exclusions"] = ()
        kw["regex_exclusions"] = tuple(".*/" + _re.escape(os.path.basename(f)) + "$" for f in rnd.sample(files, 1))
    if kind == "module-object":
        import types as _types

        from pytestarch import get_evaluable_architecture_for_module_objects

        def fake(d):
            m = _types.ModuleType(os.path.basename(d))
            m.__file__ = os.path.join(d, "__init__.py")
            return m

        if dirs and rnd.random() < 0.5:
            mp = os.path.join(root, rnd.choice(dirs))
        ev = get_evaluable_architecture_for_module_objects(fake(root), fake(mp), **kw)
    else:
        ev = get_evaluable_architecture(root, mp, **kw)
    acc.hist("e2e_scan_config", kind)
    return ev, kind


def _module_rule(rnd, ev, nodes, acc):
    root = min(nodes, key=len)
    verb = rnd.choice(rrule.VERBS)
    d = rnd.choice(rrule.DIRS)
    exc = rnd.random() < 0.5
    skind = rnd.choice(["named", "named", "sub"])
    okind = rnd.choice(["named", "named", "sub"])
    subs = pick_unrelated(rnd, nodes, rnd.randint(1, 2), kind=skind, root=root)
    if not subs:
        return
    if rnd.random() < 0.15:
        cfg = {"verb": "should_not", "dir": d, "exc": False, "subs": [(skind, subs[0])], "objs": [], "anything": True}
    else:
        objs = pick_unrelated(rnd, nodes, rnd.randint(1, 2), avoid=subs, kind=okind, root=root)
        if not objs:
            return
        cfg = {"verb": verb, "dir": d, "exc": exc, "subs": [(skind, s) for s in subs], "objs": [(okind, o) for o in objs], "anything": False}
        if rnd.random() < 0.2:
            # one side given by a regular expression that spells exactly those modules (and everything below them)
            import re as _re

            side = rnd.choice(["subs", "objs"])
            names_ = [n for _k, n in cfg[side]]
            if all(_re.fullmatch(r"[\w.]+", n) for n in names_):
                cfg[side] = [("regex", "(" + "|".join(_re.escape(n) for n in names_) + r")(\..*)?$")]
                acc.count("e2e_regex_rules")
    HUB.case = dict(HUB.case or {}, op={"rule": cfg})
    run(mk_rule(cfg, rnd.random() < 0.5), ev)
    acc.evaluated()
    acc.count("e2e_module_rules")


def _layer_rule(rnd, ev, nodes, acc):
    from .props import c05

    # layer roots: pairwise unrelated modules, internal or external, at any depth
    cands = [n for n in nodes if "." in n or not any(is_ancestor(n, m) for m in nodes)]
    rnd.shuffle(cands)
    roots = []
    for c in cands:
        if all(not related(c, r) for r in roots):
            roots.append(c)
        if len(roots) >= 6:
            break
    if len(roots) < 2:
        return
    nl = rnd.randint(2, min(4, len(roots)))
    layers = {}
    pool = roots[:]
    for j in range(nl):
        k = 1 if len(pool) <= nl - j else rnd.randint(1, 2)
        layers[f"L{j}"] = [pool.pop() for _ in range(k) if pool]
    layers = {n: ms for n, ms in layers.items() if ms}
    if len(layers) < 2:
        return
    kinds = {n: rnd.choice(["named", "named", "regex"]) for n in layers}
    names = list(layers)
    rnd.shuffle(names)
    objects = names[1 : 1 + rnd.randint(1, min(2, len(names) - 1))]
    cfg = {"verb": rnd.choice(["should", "should_only", "should_not"]), "dir": rnd.choice(["import", "be"]), "exc": rnd.random() < 0.5, "anything": False, "subject": names[0], "objects": objects}
    if rnd.random() < 0.1:
        cfg.update(verb="should_not", exc=False, anything=True, objects=[])
    str_form = rnd.random() < 0.5
    HUB.case = dict(HUB.case or {}, op={"layer_rule": cfg, "layers": layers, "kinds": kinds})
    try:
        arch = c05.make_arch(layers, kinds, str_form)
        rule = c05.make_rule(arch, cfg, str_form)
    except Exception as e:  # noqa: BLE001
        HUB.violation("C05", f"builder-exception:{type(e).__name__}", f"well-formed layer definition / rule rejected: {e}", {"layers": layers, "cfg": cfg})
        return
    run(rule, ev)
    acc.evaluated()
    acc.count("e2e_layer_rules")


def _diagram_rule(rnd, ev, nodes, imps, acc):
    from pytestarch import DiagramRule

    from .props import c07

    # components: the children of one package that has >= 2 children
    parents = sorted({n.rsplit(".", 1)[0] for n in nodes if "." in n})
    parents = [p for p in parents if sum(1 for n in nodes if n.rsplit(".", 1)[0] == p and "." in n) >= 2]
    if not parents:
        return
    base = rnd.choice(parents)
    kids = sorted(n.rsplit(".", 1)[1] for n in nodes if "." in n and n.rsplit(".", 1)[0] == base)
    import re as _re

    # component names the diagram parser's name class can spell (identifiers with combining marks / U+00B7 are the
    # known finding of C06 and are left to that check)
    kids = [k for k in kids if k.isidentifier() and _re.fullmatch(r"\w+", k) and not k.startswith("__")]
    if len(kids) < 2:
        return
    comps = rnd.sample(kids, rnd.randint(2, min(5, len(kids))))

    def comp_of(m):
        for c in comps:
            f = f"{base}.{c}"
            if m == f or is_ancestor(f, m):
                return c
        return None

    actual = sorted({(comp_of(a), comp_of(b)) for a, b in imps if comp_of(a) and comp_of(b) and comp_of(a) != comp_of(b)})
    rel = list(actual)
    r = rnd.random()
    if r < 0.3 and rel:
        rel.remove(rnd.choice(rel))
    elif r < 0.5:
        und = [(a, b) for a in comps for b in comps if a != b and (a, b) not in rel]
        if und:
            rel.append(rnd.choice(und))
    spec = c07.diagram_spec(rnd, comps, rel)
    path = c07.write_diagram(spec, f"e2e{acc.evaluations}.puml")
    mode = rnd.random() < 0.6
    HUB.case = dict(HUB.case or {}, op={"diagram": {"base": base, "comps": comps, "drawn": rel, "should_only": mode}})
    run(DiagramRule(should_only_rule=mode).from_file(Path(path)).with_base_module(base), ev)
    os.unlink(path)
    acc.evaluated()
    acc.count("e2e_diagram_rules")


def _visualize(rnd, ev, nodes, acc):
    k = rnd.randint(0, min(3, len(nodes)))
    aliases = {m: f"AL{j}" for j, m in enumerate(rnd.sample(sorted(nodes), k))}
    if rnd.random() < 0.1:
        aliases["no.such.module"] = "Ghost"
    kw = {"aliases": aliases} if aliases or rnd.random() < 0.5 else {}
    if rnd.random() < 0.3:
        kw["spacing"] = rnd.choice([0.5, 2])
    HUB.case = dict(HUB.case or {}, op={"visualize": kw})
    try:
        ev.visualize(**kw)
    except Exception:  # noqa: BLE001  (judged by the monitor)
        pass
    acc.evaluated()
    acc.count("e2e_visualize_calls")


def soak(seed, acc, n_projects: int, ops_per_project=(25, 60), weights=None):
    """weights: relative frequency of (module rule, layer rule, diagram rule, visualize).  Every project is
    generated and driven from its own PRNG seeded with "<seed>:<index>", which is what a replay file records."""
    weights = tuple(weights or (5, 3, 2, 1))
    for i in range(n_projects):
        project(f"{seed}:{i}", acc, ops_per_project, weights)


def replay(case, acc):
    project(case["pseed"], acc, tuple(case.get("ops", (25, 60))), tuple(case.get("weights", (5, 3, 2, 1))))


def project(pseed: str, acc, ops_per_project, weights):
    rnd = random.Random(pseed)
    base_case = {"kind": "e2e", "pseed": pseed, "ops": list(ops_per_project), "weights": list(weights)}
    spec = trees.random_project(rnd, depth=rnd.choice([2, 3, 4]), imports_per_file=(1, 4), externals=0.25, name_imports=0.2, dangling=0.05)
    root = trees.write_tree(spec)
    try:
        HUB.case = dict(base_case)
        evs = []
        for _k in range(rnd.randint(1, 3)):
            ev, kind = _scan(rnd, root, spec, acc)
            if rnd.random() < 0.2:
                # the scanned architecture goes through copy.deepcopy / a pickle round trip first (a cached fixture, a
                # worker process): the copy is what is used from here on, and it is the same architecture
                from .drive import copy_of

                ev = copy_of(ev, rnd.choice(["deepcopy", "pickle"]))
                kind += "+copied"
            st = graph_state(ev)
            if st is None:
                acc.mark_inconclusive("e2e: cannot read the scanned architecture's graph")
                return
            nodes = sorted(st[0])
            imps = sorted((a, b) for a, b, inh in st[1] if not inh)
            evs.append((ev, kind, nodes, imps))
            acc.evaluated()
        initial = [graph_state(e[0]) for e in evs]
        for _op in range(rnd.randint(*ops_per_project)):
            ev, kind, nodes, imps = rnd.choice(evs)
            HUB.case = dict(base_case, scan=kind)
            if len(nodes) < 3:
                continue
            what = rnd.choices(["rule", "layer", "diagram", "vis"], weights=weights)[0]
            if what == "rule":
                _module_rule(rnd, ev, nodes, acc)
            elif what == "layer":
                _layer_rule(rnd, ev, nodes, acc)
            elif what == "diagram":
                _diagram_rule(rnd, ev, nodes, imps, acc)
            else:
                _visualize(rnd, ev, nodes, acc)
        # quiescent point: the whole interleaving left every architecture as it was scanned
        HUB.case = dict(base_case)
        for (ev, kind, _n, _i), st0 in zip(evs, initial):
            if graph_state(ev) != st0:
                HUB.violation("C15", "evaluable-mutated:e2e-interleaving", "an interleaving of rules, layer rules, diagram rules and plots changed a scanned architecture", {"scan": kind})
        acc.count("e2e_projects")
        if any(any(n != spec["root"] and not n.startswith(spec["root"] + ".") for n in e[2]) for e in evs):
            acc.count("e2e_projects_with_external_modules")
    finally:
        trees.remove_tree(root)


# -- glue for the per-property modules ----------------------------------------------------

WEIGHTS = {
    "C01": (8, 1, 1, 0.5),
    "C03": (8, 1, 1, 0.5),
    "C05": (1, 8, 1, 0.5),
    "C07": (1, 1, 8, 0.5),
    "C15": (4, 3, 2, 2),
    "C17": (1, 1, 1, 8),
}


def plan_shards(pid: str, tier: str):
    n_shards, n = (2, 40) if tier == "quick" else (8, 500)
    return [{"kind": "e2e", "n": n, "weights": list(WEIGHTS[pid])} for _ in range(n_shards)]


def run_shard(spec, acc):
    soak(spec["seed"], acc, spec["n"], weights=spec.get("weights"))


def floor(acc, tier):
    why = []
    need = 40 if tier == "quick" else 1000
    if acc.counters["e2e_projects"] < need:
        why.append(f"end-to-end soak drove only {acc.counters['e2e_projects']} scanned projects")
    if acc.counters["e2e_projects_with_external_modules"] < need // 4:
        why.append(f"end-to-end soak: only {acc.counters['e2e_projects_with_external_modules']} architectures with external modules")
    return why
