"""Logical step budget for one crossing of the API boundary.

A change that makes the library loop forever on some legal input (a visited set dropped from a graph walk, a work list
that re-queues what it has already seen) breaks "returns normally exactly when ..." just like a wrong verdict does, but a
wall-clock watchdog can only call that *inconclusive*.  The budget counts LOGICAL steps instead: every start of a Python
function defined under /repo/src (sys.monitoring PY_START; code objects from anywhere else are switched off after their
first event, so the cost stays small).  An ordinary evaluation takes 10^2..10^5 such steps; the budgets are 3 to 5
orders of magnitude above what the workloads need, deterministic and independent of machine load.  When a budget is
exhausted the callback raises StepBudgetExceeded inside the library call; the monitor wrapper records a violation and
hands an ordinary exception to the driver.
"""
from __future__ import annotations

import sys
from contextlib import contextmanager

from . import boot


class StepBudgetExceeded(BaseException):
    """BaseException on purpose: no 'except Exception' inside the library can swallow it."""


class ShardAbort(BaseException):
    """Raised after a few exhausted budgets: the rest of the shard would only burn hours on the same defect."""


class _State:
    exhausted = 0
    tool = None
    depth = 0
    steps = 0
    limit = 0
    max_seen = 0
    available = None


S = _State()
SRC = boot.SRC.rstrip("/") + "/"


def _on_start(code, _offset):
    if not code.co_filename.startswith(SRC):
        return sys.monitoring.DISABLE
    S.steps += 1
    if S.steps > S.limit:
        S.limit = 1 << 62  # raise once
        raise StepBudgetExceeded(f"more than {S.steps - 1} function starts inside one API call")
    return None


def _setup() -> bool:
    if S.available is not None:
        return S.available
    mon = getattr(sys, "monitoring", None)
    S.available = False
    if mon is None:
        return False
    try:
        S.tool = mon.OPTIMIZER_ID
        mon.use_tool_id(S.tool, "pta_verif_step_budget")
        mon.register_callback(S.tool, mon.events.PY_START, _on_start)
        S.available = True
    except Exception:  # noqa: BLE001  (tool id taken: no budget, the wall-clock watchdog remains)
        S.available = False
    return S.available


@contextmanager
def step_budget(limit: int):
    """Only the outermost crossing owns the budget (a DiagramRule evaluates many Rules)."""
    if not _setup() or S.depth > 0:
        S.depth += 1
        try:
            yield
        finally:
            S.depth -= 1
        return
    mon = sys.monitoring
    S.depth, S.steps, S.limit = 1, 0, limit
    mon.set_events(S.tool, mon.events.PY_START)
    try:
        yield
    except StepBudgetExceeded:
        S.exhausted += 1
        raise
    finally:
        mon.set_events(S.tool, 0)
        S.depth = 0
        if S.steps > S.max_seen:
            S.max_seen = S.steps


def abort_if_hopeless():
    """Called by the monitor wrappers after they have recorded the violation."""
    if S.exhausted >= 3:
        raise ShardAbort(f"{S.exhausted} API calls exhausted their step budget")


def steps_of_last_call() -> int:
    return S.steps
