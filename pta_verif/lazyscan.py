"""A scan is a snapshot taken by the call.  What the caller does between get_evaluable_architecture(...) and the first use
of its result - leaving a temporary directory, regenerating the files, changing the working directory after having passed
relative paths - must not change the architecture.  The scan monitor normally reads the raw graph at once (which would
force any deferred work and hide it); here it leaves the result untouched (HUB.defer_scan), the reference scanner reads
the tree at the time of the call, the change is made, and only then is the result used and judged."""
from __future__ import annotations

import os
import random
import shutil

from . import trees
from .monitors import HUB
from .monitors_more import attribute_scan_findings, judge_deferred_scan

CHANGES = ["tree-removed", "files-rewritten", "cwd-changed"]


def late_use_case(rnd, acc, owner, mapping, forced=None):
    """-> (late ScanEvent | None, eager twin ScanEvent) of one project; violations are recorded on the way."""
    from pytestarch import get_evaluable_architecture

    how = forced["how"] if forced else rnd.choice(CHANGES)
    spec = forced["spec"] if forced else trees.random_project(rnd, depth=rnd.choice([2, 3]), imports_per_file=(1, 3), name_imports=0.2)
    spec2 = forced["spec2"] if forced else (trees.random_project(random.Random(rnd.random()), depth=2, imports_per_file=(1, 3)) if how == "cwd-changed" else None)
    include = forced["include"] if forced else rnd.random() < 0.25
    root = trees.write_tree(spec)
    other = trees.write_tree(spec2) if spec2 else None
    cwd = os.getcwd()
    case = {"kind": "late-use", "how": how, "spec": spec, "spec2": spec2, "include": include}
    try:
        if how == "cwd-changed":
            os.chdir(os.path.dirname(root))
            args = ("proj", "proj")
        else:
            args = (root, root)
        kw = {"exclude_external_libraries": False} if include else {}
        HUB.case = case
        get_evaluable_architecture(*args, **kw)
        eager = HUB.scan_events[-1]  # the twin that is used at once
        HUB.defer_scan = True
        try:
            get_evaluable_architecture(*args, **kw)
        finally:
            HUB.defer_scan = False
        late = HUB.scan_events[-1]
        _CASES.clear()
        _CASES[id(late)] = case
        if how == "tree-removed":
            shutil.rmtree(root)
        elif how == "files-rewritten":
            for dirpath, _dirs, files in os.walk(root):
                for f in files:
                    if f.endswith(".py"):
                        with open(os.path.join(dirpath, f), "w") as fh:
                            fh.write("import proj\nx = 1\n")
        else:
            os.chdir(os.path.dirname(other))
        ok = judge_deferred_scan(late, owner, case)
        acc.evaluated(2)
        acc.count("scan_results_first_used_after:" + how)
        acc.count("scan_results_first_used_after_a_change")
        if not ok:
            return None, eager
        attribute_scan_findings(late, mapping, case)
        if late.state != eager.state:
            HUB.case = case
            HUB.violation(
                owner,
                f"scan-result-depends-on-what-happens-after-the-call:{how}",
                f"two scans of the same tree differ: one result was used at once, the other only after '{how}'",
                {"how": how, "nodes_only_in_late": sorted(late.nodes - eager.nodes)[:10], "nodes_only_in_eager": sorted(eager.nodes - late.nodes)[:10], "imports_only_in_late": sorted(late.imps - eager.imps)[:10], "imports_only_in_eager": sorted(eager.imps - late.imps)[:10]},
            )
        return late, eager
    finally:
        os.chdir(cwd)
        trees.remove_tree(root)
        if other:
            trees.remove_tree(other)


def replay(case, acc, owner, mapping):
    return late_use_case(None, acc, owner, mapping, forced=case)


def late_use_with_rules(rnd, acc, owner, forced=None, n_rules=8):
    """The architecture that was first used after the change is then asked for verdicts and reports; the monitors judge
    them against the tree as it was when the scan was requested (the twin that was used at once)."""
    from . import e2e

    rules_seed = forced["rules_seed"] if forced else rnd.randrange(10**9)
    late, eager = late_use_case(rnd, acc, owner, {}, forced=forced)
    if late is None or late.evaluable is None:
        return
    HUB.register_truth(late.evaluable, eager.nodes, eager.imps)
    r2 = random.Random(rules_seed)
    for _ in range(n_rules):
        HUB.case = dict(_case_of(late), rules_seed=rules_seed)
        e2e._module_rule(r2, late.evaluable, sorted(eager.nodes), acc)
    acc.count("rules_on_architectures_first_used_after_a_change", n_rules)


_CASES = {}


def _case_of(se):
    return _CASES.get(id(se), {"kind": "late-use"})


# ---------------------------------------------------------------------------------------------------------------------
# scans that directly follow each other
# ---------------------------------------------------------------------------------------------------------------------


def burst_scans(requests, owner, mapping, acc, case, keep=True):
    """A process that scans several trees (or one tree under several options) directly one after the other - session
    fixtures being set up, a watch mode - before it looks at any result.  The library is called back to back with nothing
    of the monitor in between (the wrapper would allocate thousands of objects between two scans and thereby hide state
    that the library keys by object address); with keep=False every second result is dropped before the next call.  Only
    afterwards is each kept result judged by R-SCAN against the tree, which is still on disk.
    requests: [(args, kwargs, sub_case)] -> list of judged ScanEvent (None for dropped / unjudged ones)."""
    import inspect

    import pytestarch.pytestarch as entry

    from . import monitors_more as mm

    wrapped = entry.get_evaluable_architecture
    orig = getattr(wrapped, "_pta_orig", wrapped)
    sig = inspect.signature(orig)
    results = []
    if keep:
        results = [orig(*a, **k) for a, k, _c in requests]
    else:
        for i, (a, k, _c) in enumerate(requests):
            r = orig(*a, **k)
            results.append(r if i % 2 else None)
            del r
    out = []
    for (a, k, sub), ev in zip(requests, results):
        if ev is None:
            out.append(None)
            continue
        ba = sig.bind(*a, **k)
        ba.apply_defaults()
        na = mm._normalise_scan_args(ba)
        se = mm.ScanEvent(na, "ok", evaluable=ev, deferred=True)
        c = dict(case, **(sub or {}))
        try:
            se.model = mm.rscan.model(os.path.abspath(os.path.normpath(os.fspath(na["root_path"]))), os.path.abspath(os.path.normpath(os.fspath(na["module_path"]))), na["_globs"], na["_regexes"])
        except Exception as e:  # noqa: BLE001
            HUB.acc.count("scan_model_errors")
            HUB.acc.hist("scan_model_error", f"{type(e).__name__}: {e}"[:200])
            out.append(None)
            continue
        if judge_deferred_scan(se, owner, c):
            attribute_scan_findings(se, mapping, c)
            acc.count("scans_judged_after_a_burst_of_back_to_back_scans")
            out.append(se)
        else:
            out.append(None)
    return out


# ---------------------------------------------------------------------------------------------------------------------
# one path, two contents
# ---------------------------------------------------------------------------------------------------------------------

OLD_EPOCH = 1_600_000_000  # what a build with SOURCE_DATE_EPOCH, an unpacked archive or `cp -p` leaves behind


def rescan_after_edit(rnd, acc, owner, mapping, forced=None, option_sets=({},), judged=lambda kw: True):
    """One tree scanned, some files replaced by other sources IN PLACE - with the SAME size and the SAME modification time
    (a generator with a fixed SOURCE_DATE_EPOCH, `cp -p`, `rsync -t`, an archive unpacked over the tree; half of the trees
    carry one fixed old time stamp on every file and directory) - and scanned again at the same path in the same process,
    once per option set: every later architecture is judged by R-SCAN against the files as they are THEN."""
    from pytestarch import get_evaluable_architecture

    if forced:
        first, second, old = forced["first"], forced["second"], forced.get("old", False)
    else:
        first = trees.random_project(rnd, depth=3, imports_per_file=(1, 4), externals=0.0, name_imports=0.2, extras=False)
        # the same layout with freshly drawn import statements
        second = {"root": first["root"], "dirs": list(first["dirs"]), "files": dict(first["files"])}
        files = sorted(f for f in first["files"] if f.endswith(".py"))
        mods = [trees.mod_of("proj", f) for f in files if all(p.isidentifier() for p in f[:-3].split("/"))]
        for f in rnd.sample(files, max(1, len(files) // 2)):
            me = trees.mod_of("proj", f)
            cands = [m for m in mods if m != me and not me.startswith(m + ".")]
            lines = [rnd.choice([f"import {t}", f"from {t} import some_function", f"import {t} as q"]) for t in rnd.sample(cands, min(len(cands), rnd.randint(0, 3)))]
            second["files"][f] = "\n".join(lines) + "\ndef some_function():\n    return 2\n"
        # equal sizes: the shorter version of every edited file is padded with a trailing comment
        for f in files:
            a, b = first["files"][f], second["files"][f]
            if a != b and isinstance(a, str) and isinstance(b, str):
                la, lb = len(a.encode("utf-8")), len(b.encode("utf-8"))
                if la < lb:
                    first["files"][f] = a + "#" * (lb - la)
                elif lb < la:
                    second["files"][f] = b + "#" * (la - lb)
        old = rnd.random() < 0.5
    case = {"kind": "rescan-after-edit", "first": first, "second": second, "old": old}
    root = trees.write_tree(first, sub="RESCAN")
    try:
        if old:
            for dirpath, _dirs, fs in os.walk(root):
                for n in fs:
                    os.utime(os.path.join(dirpath, n), (OLD_EPOCH, OLD_EPOCH))
                os.utime(dirpath, (OLD_EPOCH, OLD_EPOCH))
        HUB.case = case
        for kw in option_sets:
            get_evaluable_architecture(root, root, **kw)  # the architectures of the first version, whatever becomes of them
        for f, src in second["files"].items():
            if src != first["files"].get(f):
                p = os.path.join(root, f)
                st = os.stat(p)
                with open(p, "w", encoding="utf-8") as fh:
                    fh.write(src)
                os.utime(p, ns=(st.st_atime_ns, st.st_mtime_ns))
                if os.stat(p).st_size == st.st_size:
                    acc.count("files_replaced_in_place_with_equal_size_and_time_stamp")
        for kw in option_sets:
            c = dict(case, options={k: v for k, v in kw.items()})
            HUB.case = c
            get_evaluable_architecture(root, root, **kw)
            se = HUB.scan_events[-1]
            if judged(kw):
                attribute_scan_findings(se, mapping, c)
                acc.evaluated(len(se.model.statements) if se.model else 0)
                acc.count("rescans_after_in_place_edit")
    finally:
        trees.remove_tree(root)
