"""Scans under COMPOSED options (extra shards of the scan-level checks C02, C04, C08, C09, C10).

The per-property workloads vary one option family at a time.  Here file exclusions (glob or regex), a level limit,
kept external libraries (with external exclusion patterns), a module_path below the root and the module-object
entry point are drawn independently, so every pair of features meets.  The deciding steps are the same ones as in
the per-property checks: the online R-SCAN post-condition on each scan, and the offline pair checkers over the scan
events of one tree (with/without the option family the running check is responsible for):

  C02  edges of the composed scan vs R-SCAN                      C04  nodes, hierarchy; module-object == path entry point
  C08  composed scan vs the same options without file exclusions (differential attribution + subset laws)
  C09  composed scan vs the same options without level_limit     (quotient of the internal part)
  C10  composed scan vs the same options with externals dropped  (internal part identical; external side vs R-SCAN)
"""
from __future__ import annotations

import os
import random
import types

from . import trees
from .monitors import HUB
from .monitors_more import attribute_scan_findings
from .refmodel import scan as rscan
from .refmodel.names import is_ancestor, truncate

PIDS = ("C02", "C04", "C08", "C09", "C10")
BIG_NAMES = trees.NAMES + ["größe", "данные", "match", "case", "type", "_priv", "init", "py", "x_py", "a__b", "v2", "test_x"]


def plan_shards(pid, tier):
    n_shards, n = (2, 30) if tier == "quick" else (6, 400)
    return [{"kind": "combos", "n": n, "first": i == 0} for i in range(n_shards)]


# The smallest, emptiest, most repetitive legal projects (each scanned under every option preset below)
DEGENERATE = {
    "one-file": {"m.py": "import os\n"},
    "only-init": {"__init__.py": ""},
    "only-inits-nested": {"__init__.py": "", "a/__init__.py": "", "a/b/__init__.py": ""},
    "only-sub-directories": {"a/b/.keep": "", "c/.keep": ""},
    "zero-byte-files": {"__init__.py": "", "a.py": "", "p/__init__.py": "", "p/b.py": ""},
    "imports-itself": {"__init__.py": "", "m.py": "import proj.m\nfrom proj import m\nfrom . import m\n", "p/__init__.py": "from . import __init__\n", "p/q.py": "import proj.p.q\n"},
    "one-statement-many-times": {"__init__.py": "", "a.py": "import proj.b\n" * 5 + "from proj import b\n" * 3, "b.py": "import proj.a\nimport proj.a\n"},
    "single-chain": {"a/b/c/d/leaf.py": "import proj.a\nimport proj.a.b.c.d.leaf\nfrom proj.a.b import c\n"},
    "pycache-with-sources": {"__init__.py": "", "a.py": "import proj.b\n", "b.py": "", "__pycache__/a.cpython-312.pyc": "\x00", "__pycache__/stale.py": "import proj.a\n", "p/__pycache__/x.py": "import proj.b\n", "p/__init__.py": "",
                             # names that merely CONTAIN the word: matched by the documented default '*__pycache__*' as well
                             "__pycache__old/y.py": "import proj.a\n", "legacy__pycache__helpers.py": "import proj.b\n", "p/my__pycache__/z.py": ""},
    "identical-files-in-different-packages": {"__init__.py": "", "a/__init__.py": "from . import impl\nfrom .impl import core\n", "a/impl/__init__.py": "", "a/impl/core.py": "", "deep/__init__.py": "", "deep/b/__init__.py": "from . import impl\nfrom .impl import core\n", "deep/b/impl/__init__.py": "", "deep/b/impl/core.py": "", "x/same.py": "from . import other\nimport proj.a\n", "x/other.py": "", "y/same.py": "from . import other\nimport proj.a\n", "y/other.py": ""},
    "one-file-per-level": {"top.py": "import proj.l1.mid\n", "l1/mid.py": "import proj.l1.l2.low\nimport json.decoder\n", "l1/l2/low.py": "import proj.top\nimport os.path\n"},
}
PRESETS = [
    ("", {}),
    ("", {"exclude_external_libraries": False}),
    ("", {"level_limit": 1}),
    ("", {"level_limit": 2}),
    ("", {"level_limit": 9}),
    ("", {"level_limit": 10**6}),
    ("", {"level_limit": __import__("sys").maxsize}),
    ("leaf", {"level_limit": __import__("sys").maxsize}),
    ("", {"exclusions": ("*",)}),
    ("", {"exclusions": ("**",)}),
    ("", {"exclusions": ("",)}),
    ("", {"exclusions": ("*__init__.py",)}),
    ("", {"exclusions": (), "regex_exclusions": ("",)}),
    ("", {"exclusions": (), "regex_exclusions": (".*",)}),
    ("", {"exclusions": ("*proj",)}),
    ("", {"exclude_external_libraries": False, "external_exclusions": ("*",)}),
    ("", {"exclude_external_libraries": False, "external_exclusions": ("os",), "level_limit": 1}),
    ("", {"exclude_external_libraries": False, "regex_external_exclusions": ("",)}),
    ("", {"exclude_external_libraries": False, "regex_external_exclusions": ("json", "")}),
    ("", {"exclude_external_libraries": False, "external_exclusions": ("",)}),
    ("", {"exclude_external_libraries": False, "external_exclusions": ("json",)}),
    ("", {"exclude_external_libraries": False, "regex_external_exclusions": (r"os\.",)}),
    ("leaf", {}),
    ("leaf", {"level_limit": 1}),
    ("leaf", {"exclude_external_libraries": False}),
]


def degenerate(pid, acc):
    for name, files in DEGENERATE.items():
        spec = {"root": "proj", "dirs": [], "files": dict(files)}
        dirs = [d for d in trees.all_dirs(spec) if d]
        leaf = max(dirs, key=lambda d: (d.count("/"), d)) if dirs else ""
        for where, o in PRESETS:
            for entry in ("path", "object", "positional", "object-positional", "keywords"):
                try:
                    project(pid, f"degenerate:{name}", acc, fixed=(spec, leaf if where == "leaf" else "", dict(o), entry))
                except Exception as e:  # noqa: BLE001  (a scan that raises has been recorded by the scan monitor)
                    acc.hist("degenerate_scans_that_raised", f"{name}:{type(e).__name__}")
        acc.count("degenerate_projects")


def run_shard(pid, spec, acc):
    if spec.get("first"):
        degenerate(pid, acc)
    for i in range(spec["n"]):
        project(pid, f"{spec['seed']}:{i}", acc)


def replay(pid, case, acc):
    if str(case["pseed"]).startswith("degenerate:"):
        files = DEGENERATE[case["pseed"].split(":", 1)[1]]
        o = {k: tuple(v) if isinstance(v, list) else v for k, v in case["options"].items()}
        return project(pid, case["pseed"], acc, fixed=({"root": "proj", "dirs": [], "files": dict(files)}, case["mp"], o, case["entry"] if case["entry"] != "other" else "path"))
    project(pid, case["pseed"], acc)


def floor(pid, acc, tier):
    why = []
    need = 40 if tier == "quick" else 1500
    if acc.counters["combo_scans"] < need:
        why.append(f"composed-option scans: only {acc.counters['combo_scans']}")
    fam = {"C08": "combo_with_exclusions", "C09": "combo_with_level_limit", "C10": "combo_with_externals"}.get(pid)
    if fam and acc.counters[fam] < need // 8:
        why.append(f"{fam}: only {acc.counters[fam]}")
    return why


def _fake_module(dirpath):
    m = types.ModuleType(os.path.basename(dirpath))
    m.__file__ = os.path.join(dirpath, "__init__.py")
    return m


def _options(rnd, spec):
    o = {}
    dirs = [d for d in trees.all_dirs(spec) if d]
    mp_rel = rnd.choice(dirs) if dirs and rnd.random() < 0.4 else ""
    if rnd.random() < 0.45:
        o["exclude_external_libraries"] = False
        r = rnd.random()
        if r < 0.3:
            o["external_exclusions"] = rnd.choice([("os*",), ("*handlers",), ("extlib.core",), ("json", "sys"), ("*.path",), ("vendor.pkg",)])
        elif r < 0.5:
            o["regex_external_exclusions"] = rnd.choice([(r"os(\.|$)",), (r".*\.core$",), (r"(json|sys)$",), (r"xml\.etree",)])
    if rnd.random() < 0.4:
        o["level_limit"] = rnd.randint(1, 4)
    r = rnd.random()
    if r < 0.3:
        base = os.path.basename(rnd.choice(dirs)) if dirs else "util"
        # the last ones textually match names of imported EXTERNAL modules (json, logging.handlers, extlib, numpyish.linalg)
        o["exclusions"] = rnd.choice([("*__init__.py",), ("*util*", "*/h"), ("*/" + base,), ("*/" + base, "*m0.py"), ("*_b*",), ("*handlers*",), ("*json*", "*lib*"), ("*linalg",),
                                    # no leading star: the pattern has to match the absolute path from its first character on, so
                                    # a name of the tree alone excludes nothing (whichever entry point is used)
                                    (base,), (base + "*",), (base + "/m0.py", "proj*"), ("proj/" + base + "*",)])
    elif r < 0.45:
        o["exclusions"] = ()
        o["regex_exclusions"] = rnd.choice([(r".*/(a|ab)$",), (r".*/__init__\.py$",), (r".*/m\d\.py",), (r".*/util(/|$)", r".*/h\.py$")])
    return mp_rel, o


def _scan(root, mp_abs, o, entry, case, acc):
    from pytestarch import get_evaluable_architecture, get_evaluable_architecture_for_module_objects

    HUB.case = case
    if entry == "object":
        get_evaluable_architecture_for_module_objects(_fake_module(root), _fake_module(mp_abs), **o)
    elif entry == "object-positional":
        order = ["exclusions", "exclude_external_libraries", "level_limit", "regex_exclusions", "external_exclusions", "regex_external_exclusions"]
        defaults = {"exclusions": ("*__pycache__*",), "exclude_external_libraries": True, "level_limit": None, "regex_exclusions": None, "external_exclusions": None, "regex_external_exclusions": None}
        get_evaluable_architecture_for_module_objects(_fake_module(root), _fake_module(mp_abs), *[o.get(k, defaults[k]) for k in order])
        acc.count("scans_with_all_arguments_passed_by_position")
    elif entry == "keywords":
        get_evaluable_architecture(root_path=root, module_path=mp_abs, **o)
        acc.count("scans_with_every_argument_passed_by_keyword")
    elif entry == "positional":
        # the same request with every argument passed by position, in the documented order
        order = ["exclusions", "exclude_external_libraries", "level_limit", "regex_exclusions", "external_exclusions", "regex_external_exclusions"]
        defaults = {"exclusions": ("*__pycache__*",), "exclude_external_libraries": True, "level_limit": None, "regex_exclusions": None, "external_exclusions": None, "regex_external_exclusions": None}
        get_evaluable_architecture(root, mp_abs, *[o.get(k, defaults[k]) for k in order])
        acc.count("scans_with_all_arguments_passed_by_position")
    else:
        get_evaluable_architecture(root, mp_abs, **o)
    acc.evaluated()
    acc.count("combo_scans")
    return HUB.scan_events[-1]


def project(pid, pseed, acc, fixed=None):
    rnd = random.Random(pseed)
    names = BIG_NAMES if rnd.random() < 0.5 else trees.NAMES
    big = rnd.random() < 0.25
    if big and rnd.random() < 0.2:
        spec = _extreme_project(rnd)
        acc.count("combo_extreme_projects")
    elif big:
        spec = _big_project(rnd, names)
    else:
        spec = trees.random_project(rnd, depth=rnd.choice([2, 3, 4]), imports_per_file=(0, 3), externals=0.25, name_imports=0.25, dangling=0.05, names=names)
    mp_rel, o = _options(rnd, spec)
    if "level_limit" in o and (o.get("exclusions") or o.get("regex_exclusions")):
        # file exclusions x level_limit is the one pairing that is NOT judged: an import of an excluded deep module is
        # dropped by the unlimited scan (C08: excluded files contribute nothing) but lands on the existing truncated
        # ancestor in the limited one; C08 read on limited scans demands that edge, C09 read on filtered scans forbids
        # it - the two properties are silent on their composition (see DESIGN.md, false alarms)
        if pid == "C09" or (pid != "C08" and rnd.random() < 0.5):
            o.pop("exclusions", None)
            o.pop("regex_exclusions", None)
        else:
            o.pop("level_limit")
    entry = "object" if rnd.random() < 0.25 else rnd.choice(["positional", "object-positional", "keywords"]) if rnd.random() < 0.25 else "path"
    if fixed:
        spec, mp_rel, o, entry = fixed
    root = trees.write_tree(spec)
    case = {"kind": "combos", "pseed": pseed, "mp": mp_rel, "options": {k: list(v) if isinstance(v, tuple) else v for k, v in o.items()}, "entry": entry}
    try:
        mp_abs = os.path.join(root, mp_rel) if mp_rel else root
        mpname = trees.mod_of("proj", mp_rel)
        se = _scan(root, mp_abs, o, entry, case, acc)
        acc.hist("combo_options", "+".join(sorted(k for k in o if k != "exclusions" or o[k])) + ("@below-root" if mp_rel else "") + (":object" if entry == "object" else "") or "default")
        acc.nontrivial(case)
        has_excl = bool(o.get("exclusions")) or bool(o.get("regex_exclusions"))
        include = o.get("exclude_external_libraries") is False
        if has_excl:
            acc.count("combo_with_exclusions")
        if include:
            acc.count("combo_with_externals")
        if "level_limit" in o:
            acc.count("combo_with_level_limit")
        if se.state is None:
            acc.mark_inconclusive("combos: cannot read the scanned architecture's graph")
            return
        if pid == "C02":
            attribute_scan_findings(se, {"edge-missing": "C02", "edge-extra": "C02"}, case)
        elif pid == "C04":
            attribute_scan_findings(se, {"nodes": "C04", "hierarchy": "C04"} if not include else {"nodes": "C04"}, case)
            other = _scan(root, mp_abs, o, "path" if entry.startswith("object") else "object", dict(case, entry="other"), acc)
            acc.count("entry_point_equivalences")
            if other.state != se.state:
                HUB.violation("C04", "module-object-entry-point-differs", "module-object and path entry points built different architectures under the same options", {"options": case["options"], "mp": mp_rel, "nodes_diff": sorted(other.nodes ^ se.nodes), "imports_diff": sorted(other.imps ^ se.imps)})
        elif pid == "C08" and not has_excl and "exclusions" not in o and "regex_exclusions" not in o:
            # the documented DEFAULT exclusion ('*__pycache__*') is in force: what R-SCAN finds wrong about entries whose
            # path contains that word is a matter of exclusions
            for c, k, text, detail in se.findings:
                if c in ("nodes", "edge-missing", "edge-extra") and "__pycache__" in (text + repr(detail)):
                    HUB.violation("C08", f"default-exclusion:{c}:{k}", text, {"options": case["options"], "mp": mp_rel, "detail": detail})
            acc.count("scans_under_the_default_exclusion")
        elif pid == "C08" and has_excl:
            o2 = {k: v for k, v in o.items() if k not in ("exclusions", "regex_exclusions")}
            o2.update(exclusions=(), regex_exclusions=())
            base = _scan(root, mp_abs, o2, entry, dict(case, variant="without file exclusions"), acc)
            attribute_scan_findings(se, {"nodes": "C08", "edge-missing": "C08", "edge-extra": "C08"}, case, baseline=base)
            internal = lambda n: n == "proj" or n.startswith("proj.")  # noqa: E731
            extra = {n for n in se.nodes if internal(n)} - {n for n in base.nodes if internal(n)}
            if extra and "level_limit" not in o:
                HUB.violation("C08", "exclusion-adds-modules", "a scan with file exclusions contains modules the scan without them does not", {"options": case["options"], "mp": mp_rel, "extra": sorted(extra)})
            kept = se.nodes
            new_imps = {(a, b) for a, b in se.imps if internal(a) and internal(b)} - {(a, b) for a, b in base.imps}
            # the only edge a removal may create: 'from P import n' falls back to P when P.n is excluded
            new_imps = {(a, b) for a, b in new_imps if not any((a, c) in base.imps and is_ancestor(b, c) and c not in kept for c in base.nodes)}
            if new_imps and "level_limit" not in o:
                HUB.violation("C08", "exclusion-adds-imports", "a scan with file exclusions contains imports between remaining modules that the scan without them does not", {"options": case["options"], "mp": mp_rel, "extra": sorted(new_imps)})
        elif pid == "C09" and "level_limit" in o:
            k = o["level_limit"]
            o2 = {kk: v for kk, v in o.items() if kk != "level_limit"}
            full = _scan(root, mp_abs, o2, entry, dict(case, variant="without level_limit"), acc)
            attribute_scan_findings(se, {"nodes": "C09", "edge-missing": "C09", "edge-extra": "C09"}, case, baseline=full)
            total = len(mpname.split(".")) + k
            internal = lambda n: n == "proj" or n.startswith("proj.")  # noqa: E731
            t = lambda n: truncate(n, total)  # noqa: E731
            exp_nodes = {t(n) for n in full.nodes if internal(n)}
            got_nodes = {n for n in se.nodes if internal(n)}
            if got_nodes != exp_nodes:
                HUB.violation("C09", "nodes-differ-from-truncation", f"level_limit={k} combined with {sorted(o2)}: internal modules are not the truncated names of the unlimited architecture", {"options": case["options"], "mp": mp_rel, "extra": sorted(got_nodes - exp_nodes), "missing": sorted(exp_nodes - got_nodes)})
            rel = lambda a, b: is_ancestor(a, b) or is_ancestor(b, a)  # noqa: E731
            exp_imps = {(t(a), t(b)) for a, b in full.imps if internal(a) and internal(b) and t(a) != t(b)}
            exp_imps = {e for e in exp_imps if not rel(*e)}
            got_imps = {(a, b) for a, b in se.imps if internal(a) and internal(b) and not rel(a, b)}
            if got_imps != exp_imps:
                HUB.violation("C09", "imports-differ-from-quotient", f"level_limit={k} combined with {sorted(o2)}: internal imports are not the quotient of the unlimited import relation", {"options": case["options"], "mp": mp_rel, "extra": sorted(got_imps - exp_imps), "missing": sorted(exp_imps - got_imps)})
            if se.hierarchy:
                HUB.violation("C09", "hierarchy-invariant", se.hierarchy[0], {"options": case["options"], "mp": mp_rel})
        elif pid == "C10" and include:
            o2 = {k: v for k, v in o.items() if k not in ("exclude_external_libraries", "external_exclusions", "regex_external_exclusions")}
            base = _scan(root, mp_abs, o2, entry, dict(case, variant="externals excluded"), acc)
            attribute_scan_findings(se, {"external": "C10", "hierarchy": "C10"}, case)
            attribute_scan_findings(base, {"external": "C10"}, dict(case, variant="externals excluded"))
            lim = o.get("level_limit")
            internal = lambda n: rscan.is_internal_name(mpname, n)  # noqa: E731
            below = lambda n: n == mpname or is_ancestor(mpname, n)  # noqa: E731
            gi, bi = {n for n in se.nodes if internal(n)}, {n for n in base.nodes if internal(n)}
            if gi != bi:
                key = "internal-modules-removed-by-external-options" if bi - gi else "internal-modules-added-by-external-options"
                HUB.violation("C10", key, "internal modules differ between externals excluded and the composed include-mode scan", {"options": case["options"], "mp": mp_rel, "added": sorted(gi - bi), "removed": sorted(bi - gi)})
            gimps = {(a, b) for a, b in se.imps if below(a) and below(b)}
            bimps = {(a, b) for a, b in base.imps if below(a) and below(b)}
            if gimps != bimps:
                HUB.violation("C10", "internal-imports-changed-by-external-options", "imports among internal modules differ between externals excluded and the composed include-mode scan", {"options": case["options"], "mp": mp_rel, "limit": lim, "added": sorted(gimps - bimps), "removed": sorted(bimps - gimps)})
            outside = {n for n in base.nodes if not internal(n)}
            if outside:
                HUB.violation("C10", "external:present-although-excluded", "modules outside module_path in a scan with external libraries excluded", {"options": case["options"], "mp": mp_rel, "nodes": sorted(outside)})
    finally:
        trees.remove_tree(root)


def _extreme_project(rnd):
    """Magnitudes: one directory with 150-400 files (numbered: m2 / m10 / m100), a package chain 25-45 levels deep, a
    path component of 200 characters, one module imported by everybody, one file with 300 import statements."""
    files = {"__init__.py": "", "hub.py": "value = 1\n"}
    n = rnd.randint(150, 700)
    for i in range(n):
        files[f"wide/m{i}.py"] = "import proj.hub\nimport json\n" + (f"import proj.wide.m{rnd.randrange(n)}\n" if rnd.random() < 0.7 else "")
    files["wide/__init__.py"] = ""
    depth = rnd.randint(25, 45)
    chain = "/".join(f"d{k}" for k in range(depth))
    for k in range(1, depth + 1):
        files["/".join(f"d{j}" for j in range(k)) + "/__init__.py"] = ""
    deep_mod = "proj." + ".".join(f"d{k}" for k in range(depth))
    files[chain + "/leaf.py"] = "import proj.hub\nfrom " + "." * depth + " import hub\nimport proj.wide.m1\n"
    files["top.py"] = f"import {deep_mod}.leaf\nfrom {deep_mod} import leaf\n"
    long = "p" + "x" * 199
    files[f"{long}/__init__.py"] = ""
    files[f"{long}/inner.py"] = "from . import sibling\nimport proj.top\n"
    files[f"{long}/sibling.py"] = ""
    files["many_imports.py"] = "\n".join(f"import proj.wide.m{i}" for i in range(min(n, 300))) + "\n"
    return {"root": "proj", "dirs": [], "files": files}


def _big_project(rnd, names):
    """Wide and deep: 30-70 files, depth up to 7, many siblings, one module with many importers, long names."""
    long_names = names + ["a_rather_long_package_name_for_a_python_project", "x" * 40]
    spec = trees.random_project(rnd, depth=rnd.choice([5, 6, 7]), imports_per_file=(1, 5), externals=0.2, name_imports=0.25, names=long_names, dangling=0.03)
    # widen: graft more files next to existing ones
    dirs = trees.all_dirs(spec)
    mods = [trees.mod_of("proj", f) for f in spec["files"] if f.endswith(".py") and all(p.isidentifier() for p in f[:-3].split("/"))]
    hub = rnd.choice(mods) if mods else None
    for i in range(rnd.randint(20, 50)):
        d = rnd.choice(dirs)
        f = (d + "/" if d else "") + f"w{i}.py"
        lines = []
        if hub and rnd.random() < 0.6:
            lines.append(f"import {hub}")
        for _ in range(rnd.randint(0, 3)):
            if mods:
                t = rnd.choice(mods)
                lines.append(rnd.choice([f"import {t}", f"from {t} import some_function", f"import {t} as q"]))
        spec["files"][f] = "\n".join(lines) + "\ndef some_function():\n    return 1\n"
    return spec
