"""Further monitors: scans (R-SCAN post-condition on get_evaluable_architecture), layer rules,
diagrams, drawing backend, builder traces.  Installed by monitors.install()."""
from __future__ import annotations

import functools
import inspect
import os
from dataclasses import dataclass, field

from .monitors import HUB, Event, graph_state, hierarchy_problems, trace_of, truth_from_state, _wrap_fluent, _purity
from .refmodel import scan as rscan


# ---------------------------------------------------------------------------------
# scans
# ---------------------------------------------------------------------------------


@dataclass
class ScanEvent:
    args: dict
    outcome: str  # "ok" | "error"
    exc_type: str | None = None
    message: str | None = None
    state: tuple | None = None
    nodes: frozenset = frozenset()
    imps: frozenset = frozenset()
    findings: list = field(default_factory=list)  # (category, key, text, detail)
    hierarchy: list = field(default_factory=list)
    model: object = None
    evaluable: object = None


def _normalise_scan_args(ba) -> dict:
    a = dict(ba.arguments)
    excl = a.get("exclusions")
    rex = a.get("regex_exclusions")
    a["_globs"] = tuple(excl) if excl else ()
    a["_regexes"] = tuple(rex) if (rex and not excl) else ()
    ee = a.get("external_exclusions")
    ree = a.get("regex_external_exclusions")
    a["_ext_globs"] = tuple(ee) if ee else ()
    a["_ext_regexes"] = tuple(ree) if (ree and not ee) else ()
    return a


def _wrap_scan():
    import pytestarch
    import pytestarch.pytestarch as entry

    orig = entry.get_evaluable_architecture
    sig = inspect.signature(orig)

    @functools.wraps(orig)
    def get_evaluable_architecture(*args, **kwargs):
        if not HUB.active:
            return orig(*args, **kwargs)
        try:
            ba = sig.bind(*args, **kwargs)
            ba.apply_defaults()
            a = _normalise_scan_args(ba)
        except TypeError:
            return orig(*args, **kwargs)
        HUB.acc.count("scan_calls")
        try:
            ev = orig(*args, **kwargs)
        except Exception as e:  # noqa: BLE001
            HUB.scan_events.append(ScanEvent(a, "error", type(e).__name__, str(e)))
            raise
        se = ScanEvent(a, "ok", evaluable=ev)
        se.state = graph_state(ev)
        if se.state is not None:
            se.nodes, se.imps = truth_from_state(se.state)
            se.hierarchy = hierarchy_problems(se.state)
            try:
                if "SCAN" in HUB.judges:
                    _judge_scan(se)
            except Exception as e:  # noqa: BLE001
                HUB.acc.count("scan_model_errors")
                HUB.acc.hist("scan_model_error", f"{type(e).__name__}: {e}"[:200])
        HUB.scan_events.append(se)
        if len(HUB.scan_events) > 64:
            del HUB.scan_events[:-64]
        return ev

    get_evaluable_architecture._pta_orig = orig
    entry.get_evaluable_architecture = get_evaluable_architecture
    pytestarch.get_evaluable_architecture = get_evaluable_architecture


def _judge_scan(se: ScanEvent) -> None:
    a = se.args
    root, mp = str(a["root_path"]), str(a["module_path"])
    m = rscan.model(root, mp, a["_globs"], a["_regexes"])
    se.model = m
    ex = rscan.expect(m, bool(a["exclude_external_libraries"]), a["level_limit"], a["_ext_globs"], a["_ext_regexes"])
    se.findings = rscan.compare(m, ex, set(se.nodes), set(se.imps), bool(a["exclude_external_libraries"]))
    HUB.acc.count("scans_judged")
    HUB.acc.count("scan_statements_checked", len(m.statements))
    HUB.acc.count("scan_required_edge_groups", len(ex.required_groups))


def attribute_scan_findings(se: ScanEvent, mapping: dict, case=None, baseline: ScanEvent | None = None) -> int:
    """Turns the generic findings of one scan into violations of the properties a check is
    responsible for.  mapping: category -> property id (categories not in the mapping are
    ignored here; they belong to another property's check).  With `baseline`, only findings that
    do not also occur in the baseline scan are attributed (differential attribution)."""
    base = set()
    if baseline is not None:
        base = {(c, k, repr(d)) for c, k, _t, d in baseline.findings}
    n = 0
    saved = HUB.case
    if case is not None:
        HUB.case = case
    for c, k, text, detail in se.findings:
        if c not in mapping or (c, k, repr(detail)) in base:
            continue
        HUB.violation(mapping[c], f"{c}:{k}", text, {"args": _plain_args(se.args), "detail": detail})
        n += 1
    if "hierarchy" in mapping:
        for h in se.hierarchy:
            HUB.violation(mapping["hierarchy"], "hierarchy-invariant", h, {"args": _plain_args(se.args)})
            n += 1
    HUB.case = saved
    return n


def _plain_args(a):
    return {k: (list(v) if isinstance(v, tuple) else v if isinstance(v, (str, int, bool, type(None))) else str(v)) for k, v in a.items()}


# ---------------------------------------------------------------------------------
# install
# ---------------------------------------------------------------------------------


def install(hub) -> None:
    _wrap_scan()
