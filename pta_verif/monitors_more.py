"""Further monitors (layer rules, diagrams, scans, drawing); filled in per property."""
from __future__ import annotations


def install(hub) -> None:
    pass
