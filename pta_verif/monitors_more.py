"""Further monitors: scans (R-SCAN post-condition on get_evaluable_architecture), layer rules,
diagrams, drawing backend, builder traces.  Installed by monitors.install()."""
from __future__ import annotations

import functools
import inspect
import os
from dataclasses import dataclass, field

from .budget import StepBudgetExceeded, step_budget
from .monitors import HUB, Event, graph_state, hierarchy_problems, trace_of, truth_from_state, _wrap_fluent, _purity, RULE_BUDGET, SCAN_BUDGET, rule_budget
from .refmodel import scan as rscan


# ---------------------------------------------------------------------------------
# scans
# ---------------------------------------------------------------------------------


@dataclass
class ScanEvent:
    args: dict
    outcome: str  # "ok" | "error"
    exc_type: str | None = None
    message: str | None = None
    state: tuple | None = None
    nodes: frozenset = frozenset()
    imps: frozenset = frozenset()
    findings: list = field(default_factory=list)  # (category, key, text, detail)
    hierarchy: list = field(default_factory=list)
    model: object = None
    evaluable: object = None
    deferred: bool = False  # the result was handed to the caller untouched; judge_deferred_scan() completes the event


def _normalise_scan_args(ba) -> dict:
    a = dict(ba.arguments)
    # pattern options given as one-shot iterables must reach the library untouched: such a scan is not judged by R-SCAN
    a["_opaque"] = any(a.get(k) is not None and not isinstance(a.get(k), (tuple, list, str)) for k in ("exclusions", "regex_exclusions", "external_exclusions", "regex_external_exclusions"))
    if a["_opaque"]:
        a.update(_globs=(), _regexes=(), _ext_globs=(), _ext_regexes=())
        return a
    excl = a.get("exclusions")
    rex = a.get("regex_exclusions")
    a["_globs"] = tuple(excl) if excl else ()
    a["_regexes"] = tuple(rex) if (rex and not excl) else ()
    ee = a.get("external_exclusions")
    ree = a.get("regex_external_exclusions")
    a["_ext_globs"] = tuple(ee) if ee else ()
    a["_ext_regexes"] = tuple(ree) if (ree and not ee) else ()
    return a


def _wrap_scan():
    import pytestarch
    import pytestarch.pytestarch as entry

    orig = entry.get_evaluable_architecture
    sig = inspect.signature(orig)

    @functools.wraps(orig)
    def get_evaluable_architecture(*args, **kwargs):
        if not HUB.active:
            return orig(*args, **kwargs)
        try:
            ba = sig.bind(*args, **kwargs)
            ba.apply_defaults()
            a = _normalise_scan_args(ba)
            intent = getattr(HUB, "scan_intent", None)
            if intent is not None:
                # the caller went through the module-object entry point: the scan is judged by what the CALLER asked for
                # (directories of the two module objects, the options as given), not by what that function hands on
                HUB.scan_intent = None
                if any(ba.arguments.get(k) != v for k, v in intent.items()):
                    HUB.acc.count("module_object_entry_point_handed_on_other_arguments_than_it_was_given")
                import types as _types

                a = _normalise_scan_args(_types.SimpleNamespace(arguments=dict(intent)))
                HUB.acc.count("module_object_scans_judged_by_the_callers_arguments")
        except TypeError:
            return orig(*args, **kwargs)
        HUB.acc.count("scan_calls")
        from . import monitors_trace

        try:
            with step_budget(SCAN_BUDGET):
                ev = orig(*args, **kwargs)
        except StepBudgetExceeded as e:
            owner = getattr(HUB, "scan_crash_owner", None) or "C04"
            HUB.scan_events.append(ScanEvent(a, "error", "StepBudgetExceeded", str(e)))
            HUB.violation(owner, "scan-does-not-terminate", f"get_evaluable_architecture exhausted its step budget ({e})", {"args": _plain_args(a)})
            raise RuntimeError(f"step budget exhausted: {e}") from None
        except Exception as e:  # noqa: BLE001
            HUB.scan_events.append(ScanEvent(a, "error", type(e).__name__, str(e)))
            monitors_trace.judge_entry_point(a, "error", type(e).__name__)
            owner = getattr(HUB, "scan_crash_owner", None)
            try:
                valid = owner and not a.get("_opaque") and not monitors_trace.entry_point_invalid_reasons(a) and os.path.isdir(os.fspath(a["root_path"])) and os.path.isdir(os.fspath(a["module_path"]))
            except Exception:  # noqa: BLE001
                valid = False
            if valid and not getattr(HUB, "scan_crash_expected", False):
                try:
                    rscan.model(os.path.normpath(os.fspath(a["root_path"])), os.path.normpath(os.fspath(a["module_path"])), a["_globs"], a["_regexes"])
                except (SyntaxError, ValueError) as e2:
                    # the reference scanner cannot read the tree either: the DRIVER wrote an illegal source file -
                    # that is a defect of the workload, never a verdict about the library
                    valid = False
                    HUB.acc.mark_inconclusive(f"a workload wrote a source file that is not legal Python: {type(e2).__name__}: {e2}")
                except Exception:  # noqa: BLE001
                    pass
            if valid and not getattr(HUB, "scan_crash_expected", False):
                # a well-formed request on a legal tree yields an architecture; raising is a failed scan, recorded before
                # the exception travels on (the driving shard may die of it and is then reported as crashed as well)
                HUB.violation(owner, f"scan-raises-{type(e).__name__}", f"get_evaluable_architecture raised {type(e).__name__}: {e} on a well-formed request", {"args": _plain_args(a)})
            raise
        monitors_trace.judge_entry_point(a, "ok", None)
        se = ScanEvent(a, "ok", evaluable=ev)
        if getattr(HUB, "defer_scan", False) and not a.get("_opaque"):
            # the workload wants to do something between the call and the first use of its result: the reference scanner
            # reads the tree NOW (absolute paths, so that a later chdir does not matter), the result stays untouched
            se.deferred = True
            try:
                se.model = rscan.model(os.path.abspath(os.path.normpath(os.fspath(a["root_path"]))), os.path.abspath(os.path.normpath(os.fspath(a["module_path"]))), a["_globs"], a["_regexes"])
            except Exception as e:  # noqa: BLE001
                HUB.acc.count("scan_model_errors")
                HUB.acc.hist("scan_model_error", f"{type(e).__name__}: {e}"[:200])
            HUB.scan_events.append(se)
            return ev
        se.state = graph_state(ev)
        if se.state is not None:
            se.nodes, se.imps = truth_from_state(se.state)
            se.hierarchy = hierarchy_problems(se.state)
            try:
                if "SCAN" in HUB.judges and not a.get("_opaque"):
                    _judge_scan(se)
                elif a.get("_opaque"):
                    HUB.acc.count("scans_with_iterator_options_not_judged_by_the_model")
            except Exception as e:  # noqa: BLE001
                HUB.acc.count("scan_model_errors")
                HUB.acc.hist("scan_model_error", f"{type(e).__name__}: {e}"[:200])
        if getattr(HUB, "auto_attribute", False):
            # nobody drives this scan for a particular property (e.g. the repository's own tests):
            # attribute by category
            attribute_scan_findings(se, {"edge-missing": "C02", "edge-extra": "C02", "nodes": "C04", "external": "C10", "hierarchy": "C10" if not a["exclude_external_libraries"] else "C04"})
        HUB.scan_events.append(se)
        if len(HUB.scan_events) > 3:
            # (a workload keeps the events it still needs; the hub must not keep scanned architectures alive)
            del HUB.scan_events[:-3]
        return ev

    get_evaluable_architecture._pta_orig = orig
    entry.get_evaluable_architecture = get_evaluable_architecture
    pytestarch.get_evaluable_architecture = get_evaluable_architecture

    orig_mo = entry.get_evaluable_architecture_for_module_objects
    sig_mo = inspect.signature(orig_mo)

    @functools.wraps(orig_mo)
    def get_evaluable_architecture_for_module_objects(*args, **kwargs):
        if not HUB.active:
            return orig_mo(*args, **kwargs)
        try:
            bm = sig_mo.bind(*args, **kwargs)
            bm.apply_defaults()
            d = dict(bm.arguments)
            intent = {"root_path": os.path.dirname(d.pop("root_module").__file__), "module_path": os.path.dirname(d.pop("module").__file__)}
            intent.update(d)
            if set(intent) != set(sig.parameters):
                intent = None
        except Exception:  # noqa: BLE001  (not a call this monitor understands)
            intent = None
        HUB.scan_intent = intent
        try:
            return orig_mo(*args, **kwargs)
        finally:
            HUB.scan_intent = None

    get_evaluable_architecture_for_module_objects._pta_orig = orig_mo
    entry.get_evaluable_architecture_for_module_objects = get_evaluable_architecture_for_module_objects
    pytestarch.get_evaluable_architecture_for_module_objects = get_evaluable_architecture_for_module_objects


def _judge_scan(se: ScanEvent) -> None:
    a = se.args
    # '..' components are the caller's spelling of a directory; the reference walk starts from the directories meant
    root, mp = os.path.normpath(os.fspath(a["root_path"])), os.path.normpath(os.fspath(a["module_path"]))
    m = rscan.model(root, mp, a["_globs"], a["_regexes"])
    se.model = m
    ex = rscan.expect(m, bool(a["exclude_external_libraries"]), a["level_limit"], a["_ext_globs"], a["_ext_regexes"])
    se.findings = rscan.compare(m, ex, set(se.nodes), set(se.imps), bool(a["exclude_external_libraries"]))
    HUB.acc.count("scans_judged")
    HUB.acc.count("scan_statements_checked", len(m.statements))
    HUB.acc.count("scan_required_edge_groups", len(ex.required_groups))


def judge_deferred_scan(se: ScanEvent, owner: str, case=None) -> bool:
    """Second half of a scan whose result was left untouched (HUB.defer_scan): the result is used for the first time now -
    through the public accessor first - and compared with what the reference scanner read at the time of the call."""
    ev = se.evaluable
    saved = HUB.case
    if case is not None:
        HUB.case = case
    try:
        try:
            with step_budget(SCAN_BUDGET):
                list(ev.modules)
        except Exception as e:  # noqa: BLE001
            HUB.violation(owner, f"scan-result-unusable-at-first-use:{type(e).__name__}", f"the architecture returned by get_evaluable_architecture raised {type(e).__name__}: {e} when it was first used", {"args": _plain_args(se.args)})
            return False
        se.state = graph_state(ev)
        if se.state is None or se.model is None:
            HUB.acc.mark_inconclusive("deferred scan: raw graph or reference model unavailable")
            return False
        se.nodes, se.imps = truth_from_state(se.state)
        se.hierarchy = hierarchy_problems(se.state)
        a = se.args
        ex = rscan.expect(se.model, bool(a["exclude_external_libraries"]), a["level_limit"], a["_ext_globs"], a["_ext_regexes"])
        se.findings = rscan.compare(se.model, ex, set(se.nodes), set(se.imps), bool(a["exclude_external_libraries"]))
        HUB.acc.count("scans_judged")
        HUB.acc.count("scans_judged_at_first_use_after_a_change")
        return True
    finally:
        HUB.case = saved


def attribute_scan_findings(se: ScanEvent, mapping: dict, case=None, baseline: ScanEvent | None = None) -> int:
    """Turns the generic findings of one scan into violations of the properties a check is
    responsible for.  mapping: category -> property id (categories not in the mapping are
    ignored here; they belong to another property's check).  With `baseline`, only findings that
    do not also occur in the baseline scan are attributed (differential attribution)."""
    base = set()
    if baseline is not None:
        base = {(c, k, repr(d)) for c, k, _t, d in baseline.findings}
    n = 0
    saved = HUB.case
    if case is not None:
        HUB.case = case
    for c, k, text, detail in se.findings:
        if c not in mapping or (c, k, repr(detail)) in base:
            continue
        HUB.violation(mapping[c], f"{c}:{k}", text, {"args": _plain_args(se.args), "detail": detail})
        n += 1
    if "hierarchy" in mapping:
        for h in se.hierarchy:
            HUB.violation(mapping["hierarchy"], "hierarchy-invariant", h, {"args": _plain_args(se.args)})
            n += 1
    HUB.case = saved
    return n


def _plain_args(a):
    return {k: (list(v) if isinstance(v, tuple) else v if isinstance(v, (str, int, bool, type(None))) else str(v)) for k, v in a.items()}


# ---------------------------------------------------------------------------------
# layer rules (C05 verdict post-condition, traces for C13/C16)
# ---------------------------------------------------------------------------------

LAYER_RULE_FLUENT = [
    "based_on", "layers_that", "are_named", "should", "should_only", "should_not",
    "access_layers_that", "be_accessed_by_layers_that", "access_layers_except_layers_that",
    "be_accessed_by_layers_except_layers_that", "access_any_layer", "be_accessed_by_any_layer",
]
ARCH_FLUENT = ["with_layer", "layer", "containing_modules", "have_modules_with_names_matching"]


def snapshot_layers(arch) -> dict:
    """What the user supplied, replayed from the recorded builder calls (so that a definition that is
    mutated later cannot fool the reference model); falls back to the object's state for architectures
    built before the monitors were installed."""
    from .refmodel import automata as A

    tr = [e for e in trace_of(arch) if e[2] == "ok" and e[0] != "with_layer"]
    if tr:
        a = A.ArchAutomaton()
        for name, args, _res in tr:
            a.feed(name, args)
        regex_layers = set()
        cur = None
        for name, args, _res in tr:
            if name == "layer":
                cur = args[0]
            elif name == "have_modules_with_names_matching":
                regex_layers.add(cur)
        return {n: [("regex" if n in regex_layers else "named", m) for m in (ms or [])] for n, ms in a.layers}
    out = {}
    for name, filters in arch._modules_by_layer_name.items():
        out[name] = [("regex" if f.identifier_is_regex else "named", f.identifier) for f in filters]
    return out


def snapshot_layer_rule(lr) -> dict | None:
    """Subject / object layer names are read from the recorded fluent trace; verb, direction
    and except flag from the lowered module rule's configuration (before evaluation)."""
    from .monitors import snapshot_rule

    if lr._rule is None or lr._architecture is None:
        return None
    inner = snapshot_rule(lr._rule)
    subjects, objects, phase = [], [], "subject"
    for name, args, res in trace_of(lr):
        if res != "ok":
            continue
        if name == "layers_that":
            subjects, objects, phase = [], [], "subject"  # starts the rule afresh
        elif name.startswith("access_") or name.startswith("be_accessed_"):
            phase = "object"
        elif name == "are_named" and args:
            x = args[0]
            (subjects if phase == "subject" else objects).extend(x if isinstance(x, list) else [x])
    if len(subjects) != 1:
        return None
    subject = subjects[0]
    # for a canonical chain the caller's own calls say what the rule is (verb, access direction, except, any-layer)
    from .refmodel import automata as A

    h = [e[0] for e in trace_of(lr) if e[2] == "ok" and e[0] != "assert_applies"]
    if len(h) in (5, 6) and h[:3] == ["based_on", "layers_that", "are_named"] and h[3] in A.RULE_VERBS and h[4] in A.LAYER_ACCESS and ((len(h) == 6 and h[5] == "are_named" and not A.LAYER_ACCESS[h[4]][2]) or (len(h) == 5 and A.LAYER_ACCESS[h[4]][2])):
        d, exc, anything = A.LAYER_ACCESS[h[4]]
        canon = {"verb": h[3], "verbs": [h[3]], "dir": d, "exc": exc, "anything": anything}
        derived = {k: inner[k] for k in canon}
        if derived != canon and not (inner["exc"] and not inner["anything"] and anything):
            HUB.acc.count("layer_rule_flags_differ_from_the_calls_the_caller_made")
            inner = dict(inner, **canon)
    return {
        "verb": inner["verb"], "verbs": inner["verbs"], "dir": inner["dir"], "exc": inner["exc"], "anything": inner["anything"],
        "subject": subject, "objects": objects, "layers": snapshot_layers(lr._architecture),
    }


def _wrap_layer_rule_assert():
    from pytestarch.query_language.layered_architecture_rule import LayerRule

    from .refmodel import layers as rlayer

    orig = LayerRule.__dict__["assert_applies"]

    @functools.wraps(orig)
    def assert_applies(self, evaluable):
        if not HUB.active:
            return orig(self, evaluable)
        entry = ["assert_applies", [], None]
        trace_of(self).append(entry)
        try:
            cfg = snapshot_layer_rule(self)
        except Exception as e:  # noqa: BLE001
            HUB.acc.mark_inconclusive(f"LayerRule monitor cannot read the rule state: {type(e).__name__}: {e}")
            cfg = None
        before = graph_state(evaluable)
        exc = None
        try:
            with step_budget(rule_budget(before)):
                orig(self, evaluable)
            outcome, msg, et = "pass", None, None
        except AssertionError as e:
            exc, outcome, msg, et = e, "fail", str(e), "AssertionError"
        except StepBudgetExceeded as e:
            exc, outcome, msg, et = RuntimeError(f"step budget exhausted: {e}"), "error", str(e), "StepBudgetExceeded"
            HUB.violation("C05", "evaluation-does-not-terminate", f"LayerRule.assert_applies exhausted its step budget ({e})", {"cfg": cfg})
        except Exception as e:  # noqa: BLE001
            exc, outcome, msg, et = e, "error", str(e), type(e).__name__
        entry[2] = "ok" if exc is None else et
        after = graph_state(evaluable)
        _purity(before, after, "LayerRule.assert_applies", cfg)
        ev = Event("LayerRule.assert_applies", cfg or {}, outcome, msg, et, id(evaluable), truth_from_state(before) if before else None)
        ev.extra["trace"] = list(map(list, trace_of(self)))
        ev.extra["tag"] = HUB.tag
        if HUB.keep_log:
            HUB.log.append(ev)
        self.__dict__["_pta_last_event"] = ev
        try:
            if cfg is not None and ev.truth is not None and "C05" in HUB.judges:
                _judge_layer_rule(ev, rlayer)
            from . import monitors_trace

            monitors_trace.judge_layer_rule_eval(self, ev)
        except Exception as e:  # noqa: BLE001
            HUB.acc.mark_inconclusive(f"judge_layer_rule crashed: {type(e).__name__}: {e}")
        if exc is not None:
            try:
                raise exc
            finally:
                exc = None  # no frame <-> traceback cycle: the architecture must be able to die with its last user

    assert_applies._pta_orig = orig
    LayerRule.assert_applies = assert_applies


def _judge_layer_rule(ev, rlayer) -> None:
    cfg = ev.cfg
    mods, imps = ev.truth
    acc = HUB.acc
    acc.count("layer_rule_events")
    if len(cfg["verbs"]) != 1:
        return
    ok, why = rlayer.strict_domain(cfg["layers"], cfg, mods)
    acc.hist("c05_domain", why or "strict")
    if not ok:
        return
    w = {"cfg": cfg, "mods": sorted(mods), "imps": sorted(imps), "message": ev.message}
    if ev.outcome == "error":
        HUB.violation("C05", f"exception:{ev.exc_type}:{_layer_situation(cfg)}", f"well-formed layer rule raised {ev.exc_type}", w)
        return
    exp = rlayer.evaluate(cfg["layers"], cfg, mods, imps)
    got = ev.outcome == "pass"
    acc.count("c05_judged")
    acc.hist("c05_shape_outcome", f"{rlayer.shape(cfg)}:{ev.outcome}")
    acc.hist("c05_situation", _layer_situation(cfg))
    if any(not rlayer.pairwise_unrelated([t for k, t in d if k == "named"]) for d in cfg["layers"].values()):
        acc.count("c05_judged_nested_layer_lists")
    if got != exp:
        HUB.violation("C05", f"verdict:{rlayer.shape(cfg)}:{'false-pass' if got else 'false-fail'}", f"layer rule {'passed' if got else 'failed'} but the documented layer semantics say {'holds' if exp else 'violated'}", w)
        return
    if not got and "C03" in HUB.judges:
        from .refmodel import msgparse

        try:
            gp, gn = msgparse.parse_layer_message(ev.message)
        except msgparse.Unparseable:
            acc.count("layer_reports_unparseable")  # the tagged line format is not documented: cannot observe
            return
        _ok, pos, neg, layer_of = rlayer.report(cfg["layers"], cfg, mods, imps)
        acc.count("c03_layer_reports_judged")
        got_pairs = {(a, b) for a, _al, b, _bl in gp}
        if got_pairs != pos or gn != neg:
            kind = "missing-line" if pos - got_pairs else "extra-line" if got_pairs - pos else "negative-line"
            HUB.violation("C03", f"layer-report:{kind}:{rlayer.shape(cfg)}", "report of a failing layer rule differs from the violating set of the documented layer semantics", dict(w, missing=sorted(pos - got_pairs), extra=sorted(got_pairs - pos), neg_got=sorted(map(repr, gn)), neg_expected=sorted(map(repr, neg))))
        elif any(al != layer_of(a) or bl != layer_of(b) for a, al, b, bl in gp):
            acc.count("layer_report_tag_mismatches")  # counted only: no property states the tags


def _layer_situation(cfg) -> str:
    kinds = {n: ("regex" if any(k == "regex" for k, _ in d) else "named") for n, d in cfg["layers"].items()}
    mentioned = {cfg["subject"], *cfg["objects"]}
    parts = []
    if any(kinds[n] == "regex" for n in kinds if n not in mentioned):
        parts.append("unmentioned-regex-layer")
    ok = [kinds[o] for o in cfg["objects"]]
    if "regex" in ok and "named" in ok:
        parts.append("mixed-regex-named-objects")
    return "+".join(parts) or "plain"


# ---------------------------------------------------------------------------------
# PlantUML parsing (C06) and DiagramRule (C07)
# ---------------------------------------------------------------------------------


def register_puml(path, components, relation, must_reject=False) -> None:
    HUB.puml_truth[os.path.realpath(str(path))] = (frozenset(components), frozenset(relation), must_reject)


def _puml_truth_for(path):
    from .refmodel import puml as rpuml

    key = os.path.realpath(str(path))
    if key in HUB.puml_truth:
        return HUB.puml_truth[key], "registered"
    try:
        with open(key) as f:
            text = f.read().strip()
    except OSError:
        return None, "unreadable"
    if "@startuml" not in text or "@enduml" not in text:
        return (frozenset(), frozenset(), True), "recognised-tagless"
    r = rpuml.recognise(text)
    if r is None:
        return None, "abstain"
    return (frozenset(r[0]), frozenset(r[1]), False), "recognised"


def _wrap_puml_parse():
    from pytestarch.diagram_extension.diagram_parser import PumlParser

    orig = PumlParser.__dict__["parse"]

    @functools.wraps(orig)
    def parse(self, file_path):
        if not HUB.active:
            return orig(self, file_path)
        exc = None
        try:
            with step_budget(RULE_BUDGET):
                res = orig(self, file_path)
        except StepBudgetExceeded as e:
            exc, res = RuntimeError(f"step budget exhausted: {e}"), None
            HUB.violation("C06", "parse-does-not-terminate", f"PumlParser.parse exhausted its step budget ({e})", {"file": str(file_path)})
        except Exception as e:  # noqa: BLE001
            exc, res = e, None
        try:
            if "C06" in HUB.judges:
                _judge_parse(file_path, res, exc)
                if res is not None:
                    # what a caller does with the result: look up the arrows of every component (a component without
                    # outgoing arrows may be missing as a key).  Looking must not change what was parsed.
                    before = {k: set(v) for k, v in res.dependencies.items()}
                    for c in list(res.all_modules):
                        try:
                            res.dependencies[c]
                        except KeyError:
                            pass
                    after = {k: set(v) for k, v in res.dependencies.items()}
                    HUB.acc.count("parse_results_read_by_subscript")
                    if before != after:
                        HUB.violation("C06", "parse-result-changed-by-reading-it", "subscripting the parsed dependencies with a component changed them", {"file": str(file_path), "added_keys": sorted(set(after) - set(before))})
        except Exception as e:  # noqa: BLE001
            HUB.acc.mark_inconclusive(f"judge_parse crashed: {type(e).__name__}: {e}")
        if exc is not None:
            try:
                raise exc
            finally:
                exc = None  # no frame <-> traceback cycle: the architecture must be able to die with its last user
        return res

    parse._pta_orig = orig
    PumlParser.parse = parse


def _judge_parse(path, res, exc) -> None:
    truth, how = _puml_truth_for(path)
    HUB.acc.count("puml_parse_calls")
    HUB.acc.hist("puml_truth_source", how)
    if truth is None:
        return
    comps, rel, must_reject = truth
    HUB.acc.count("c06_judged")
    try:
        text = open(path).read()
    except OSError:
        text = None
    if must_reject:
        HUB.acc.count("c06_tagless_judged")
        if exc is None:
            HUB.violation("C06", "tagless-file-accepted", "a file without start/end tag was parsed instead of rejected", {"text": text})
        elif type(exc).__name__ != "PumlParsingError":
            HUB.violation("C06", f"tagless-file-raises-{type(exc).__name__}", "a file without start/end tag was rejected with something other than a parsing error", {"text": text, "error": str(exc)})
        return
    if exc is not None:
        HUB.violation("C06", f"parse-raises-{type(exc).__name__}", f"a diagram of the documented subset was rejected: {exc}", {"text": text})
        return
    got_comps = set(res.all_modules)
    got_rel = {(a, b) for a, bs in res.dependencies.items() for b in bs}
    if got_comps != set(comps) or got_rel != set(rel):
        lost, extra = sorted(set(rel) - got_rel), sorted(got_rel - set(rel))
        import re as _re

        odd = sorted(c for c in comps if c.replace(".", "a").isidentifier() and not _re.fullmatch(r"[\w.]+", c))
        if odd:
            # the diagram names a component whose (legal) identifier contains a character that is no regex word
            # character (combining marks, U+00B7, ...): one mechanism, whatever else the diagram contains
            key = "nonword-identifier-component"
        elif any("." in c for c in comps) and (set(comps) - got_comps or lost):
            key = "dotted-component-names"
        elif lost and not extra and got_comps == set(comps):
            key = "arrows-lost"
        elif extra:
            key = "arrows-invented-or-misresolved"
        else:
            key = "components-differ"
        HUB.violation(
            "C06", key, "parsed components / dependencies differ from what the diagram draws",
            {"text": text, "components_missing": sorted(set(comps) - got_comps), "components_extra": sorted(got_comps - set(comps)), "arrows_lost": lost, "arrows_extra": extra},
        )


def snapshot_diagram_rule(dr) -> dict:
    """What the caller configured ON THIS OBJECT, replayed from its own call history (a copy starts with the history of
    its original): the last accepted from_file / with_base_module arguments and the constructor's mode.  Only objects the
    monitor has not seen being configured are read through their attributes."""
    d = dr.__dict__
    # a driver that constructed the rule WITHOUT the mode argument says so: the documented default is should-only
    mode = d.get("_pta_intent_should_only", d.get("_pta_ctor_should_only", d.get("_should_only_rule")))
    file, base, seen_file, seen_base = None, None, False, False
    for e in trace_of(dr):
        if not isinstance(e, list) or e[2] != "ok" or not e[1]:
            continue
        if e[0] == "from_file":
            file, seen_file = e[1][0], True
        elif e[0] == "with_base_module":
            base, seen_base = e[1][0], True
    if not seen_file:
        file = str(dr._file_path) if dr._file_path is not None else None
    if not seen_base and not seen_file:
        base = dr._name_relative_to_root
    if mode is None:
        mode = dr._should_only_rule
    return {"file": file, "base": base, "should_only": bool(mode)}


def _wrap_diagram_rule():
    from pytestarch.diagram_extension.diagram_rule import DiagramRule

    for n in ("from_file", "with_base_module", "base_module_included_in_module_names"):
        _wrap_fluent(DiagramRule, n)
    init = DiagramRule.__dict__["__init__"]
    init_sig = inspect.signature(init)

    @functools.wraps(init)
    def __init__(self, *args, **kwargs):
        init(self, *args, **kwargs)
        try:
            ba = init_sig.bind(self, *args, **kwargs)
            ba.apply_defaults()
            self.__dict__["_pta_ctor_should_only"] = bool(ba.arguments.get("should_only_rule"))
        except Exception:  # noqa: BLE001
            pass

    DiagramRule.__init__ = __init__
    orig = DiagramRule.__dict__["assert_applies"]

    @functools.wraps(orig)
    def assert_applies(self, evaluable):
        if not HUB.active:
            return orig(self, evaluable)
        try:
            cfg = snapshot_diagram_rule(self)
        except Exception as e:  # noqa: BLE001
            HUB.acc.mark_inconclusive(f"DiagramRule monitor cannot read the rule state: {type(e).__name__}: {e}")
            return orig(self, evaluable)
        entry = ["assert_applies", [], None]
        trace_of(self).append(entry)
        before = graph_state(evaluable)
        exc = None
        try:
            with step_budget(rule_budget(before, 4)):
                orig(self, evaluable)
            outcome, msg, et = "pass", None, None
        except AssertionError as e:
            exc, outcome, msg, et = e, "fail", str(e), "AssertionError"
        except StepBudgetExceeded as e:
            exc, outcome, msg, et = RuntimeError(f"step budget exhausted: {e}"), "error", str(e), "StepBudgetExceeded"
            HUB.violation("C07", "evaluation-does-not-terminate", f"DiagramRule.assert_applies exhausted its step budget ({e})", {"cfg": cfg})
        except Exception as e:  # noqa: BLE001
            exc, outcome, msg, et = e, "error", str(e), type(e).__name__
        entry[2] = "ok" if exc is None else et
        after = graph_state(evaluable)
        _purity(before, after, "DiagramRule.assert_applies", cfg)
        ev = Event("DiagramRule.assert_applies", cfg, outcome, msg, et, id(evaluable), truth_from_state(before) if before else None)
        ev.extra["trace"] = list(map(list, trace_of(self)))
        ev.extra["tag"] = HUB.tag
        if HUB.keep_log:
            HUB.log.append(ev)
        self.__dict__["_pta_last_event"] = ev
        try:
            if "C07" in HUB.judges and ev.truth is not None and cfg["file"]:
                _judge_diagram_rule(ev)
            from . import monitors_trace

            monitors_trace.judge_diagram_eval(self, ev)
        except Exception as e:  # noqa: BLE001
            HUB.acc.mark_inconclusive(f"judge_diagram_rule crashed: {type(e).__name__}: {e}")
        if exc is not None:
            try:
                raise exc
            finally:
                exc = None  # no frame <-> traceback cycle: the architecture must be able to die with its last user

    assert_applies._pta_orig = orig
    DiagramRule.assert_applies = assert_applies


def diagram_expectation(mods, imps, comps, rel, should_only):
    """-> (conforms, expected_pos, expected_neg, n_violated_rules) from the statement of C07 and R-RULE."""
    from .refmodel import rules as rrule

    sel = {c: rrule.sel(("named", c), mods) for c in comps}
    conforms = True
    for a in comps:
        for b in comps:
            if a == b:
                continue
            drawn = (a, b) in rel
            has = any(x in sel[a] and y in sel[b] for x, y in imps)
            if has != drawn:
                conforms = False
    if should_only:
        for a in comps:
            targets = {b for (x, b) in rel if x == a}
            if not targets:
                continue
            allowed = set(sel[a]).union(*[sel[t] for t in targets])
            if any(x in sel[a] and y not in allowed for x, y in imps):
                conforms = False
    pos, neg, nviol = set(), set(), 0
    for a in sorted(comps):
        targets = sorted(b for (x, b) in rel if x == a)
        if targets:
            cfg = {"verb": "should_only" if should_only else "should", "dir": "import", "exc": False, "subs": [("named", a)], "objs": [("named", t) for t in targets], "anything": False}
            ok, p, n = rrule.evaluate(mods, imps, cfg, False)
            if not ok:
                nviol += 1
                pos |= p
                neg |= n
        non = sorted(set(comps) - {a} - set(targets))
        if non:
            cfg = {"verb": "should_not", "dir": "import", "exc": False, "subs": [("named", a)], "objs": [("named", t) for t in non], "anything": False}
            ok, p, n = rrule.evaluate(mods, imps, cfg, False)
            if not ok:
                nviol += 1
                pos |= p
                neg |= n
    return conforms, pos, neg, nviol


def _judge_diagram_rule(ev) -> None:
    from .refmodel import msgparse
    from .refmodel.names import pairwise_unrelated

    cfg = ev.cfg
    truth, how = _puml_truth_for(cfg["file"])
    HUB.acc.count("diagram_rule_events")
    if truth is None or truth[2]:
        return
    comps, rel, _ = truth
    if cfg["base"]:
        pre = cfg["base"] + "."
        comps = frozenset(pre + c for c in comps)
        rel = frozenset((pre + a, pre + b) for a, b in rel)
    mods, imps = ev.truth
    if not comps or any(c not in mods for c in comps) or not pairwise_unrelated(comps):
        HUB.acc.hist("c07_domain", "outside")
        return
    HUB.acc.hist("c07_domain", "strict")
    w = {"cfg": cfg, "components": sorted(comps), "drawn": sorted(rel), "mods": sorted(mods), "imps": sorted(imps), "message": ev.message}
    if ev.outcome == "error":
        HUB.violation("C07", f"exception:{ev.exc_type}", f"diagram rule over existing components raised {ev.exc_type}", w)
        return
    conforms, pos, neg, nviol = diagram_expectation(mods, imps, comps, rel, cfg["should_only"])
    HUB.acc.count("c07_judged")
    HUB.acc.hist("c07_failing_rules", min(nviol, 5))
    HUB.acc.hist("c07_mode_naming", f"{'should_only' if cfg['should_only'] else 'should'}:{'base' if cfg['base'] else 'fq'}:{ev.outcome}")
    got = ev.outcome == "pass"
    if got != conforms:
        HUB.violation("C07", f"verdict:{'false-pass' if got else 'false-fail'}:{'should_only' if cfg['should_only'] else 'should'}", f"DiagramRule {'passed' if got else 'failed'} but the imports {'do not conform' if got else 'conform'} to the diagram", w)
        return
    if not got:
        try:
            gp, gn = msgparse.parse_module_message(ev.message, allow_duplicates=True)
        except msgparse.Unparseable as e:
            HUB.violation("C07", "unparseable-aggregate", f"aggregated message has a line of no documented form: {e}", w)
            return
        if gp != pos or gn != neg:
            w2 = dict(w, extra=sorted(gp - pos), missing=sorted(pos - gp), neg_extra=sorted(map(repr, gn - neg)), neg_missing=sorted(map(repr, neg - gn)))
            key = "aggregate-incomplete" if (pos - gp or neg - gn) else "aggregate-extra"
            HUB.violation("C07", key, "aggregated error is not the union of the messages of all violated rules", w2)


# ---------------------------------------------------------------------------------
# drawing backend (C17): the interceptor is the observation point and draws nothing
# ---------------------------------------------------------------------------------


def r_label(module: str, aliases: dict) -> str:
    """R-LABEL: alias of the most specific aliased module that equals the name or is a
    whole-component prefix of it replaces that name part; otherwise the full name."""
    from .refmodel.names import is_ancestor

    best = None
    for a in aliases:
        if a == module or is_ancestor(a, module):
            if best is None or len(a.split(".")) > len(best.split(".")):
                best = a
    if best is None:
        return module
    return aliases[best] + module[len(best):]


def _wrap_draw():
    import pytestarch.eval_structure.networkxgraph as nxg

    orig_draw = nxg.draw_networkx

    def draw_networkx(G, *args, **kwargs):
        if not HUB.active:
            return orig_draw(G, *args, **kwargs)
        HUB.draw_calls.append({"nodes": frozenset(G.nodes), "args": args, "kwargs": dict(kwargs)})
        HUB.acc.count("draw_backend_calls")
        if getattr(HUB, "draw_passthrough", False):
            return orig_draw(G, *args, **kwargs)  # foreign drivers (the repository's tests) look at the figure
        return None

    draw_networkx._pta_orig = orig_draw
    nxg.draw_networkx = draw_networkx

    from pytestarch.eval_structure.evaluable_graph import EvaluableArchitectureGraph

    orig_vis = EvaluableArchitectureGraph.__dict__["visualize"]

    @functools.wraps(orig_vis)
    def visualize(self, **kwargs):
        if not HUB.active:
            return orig_vis(self, **kwargs)
        given = dict(kwargs)
        import collections.abc as _abc

        if isinstance(given.get("aliases"), _abc.Mapping):
            # what the caller specified: a copy taken before the call, or - when a driver re-uses one dict object
            # over several calls - the specification the driver says it wrote into that object
            intent = getattr(HUB, "alias_intent", None)
            HUB.alias_intent = None
            given["aliases"] = dict(intent) if intent is not None else dict(given["aliases"])
            if intent is not None:
                HUB.acc.count("c17_calls_with_reused_alias_object")
        state = graph_state(self)
        n0 = len(HUB.draw_calls)
        exc = None
        try:
            with step_budget(RULE_BUDGET):
                orig_vis(self, **kwargs)
        except StepBudgetExceeded as e:
            exc = RuntimeError(f"step budget exhausted: {e}")
            HUB.violation("C17", "visualize-does-not-terminate", f"visualize exhausted its step budget ({e})", {})
        except Exception as e:  # noqa: BLE001
            exc = e
        try:
            if "C17" in HUB.judges and state is not None:
                _judge_visualize(given, state, HUB.draw_calls[n0:], exc)
        except Exception as e:  # noqa: BLE001
            HUB.acc.mark_inconclusive(f"judge_visualize crashed: {type(e).__name__}: {e}")
        if exc is not None:
            try:
                raise exc
            finally:
                exc = None  # no frame <-> traceback cycle: the architecture must be able to die with its last user

    visualize._pta_orig = orig_vis
    EvaluableArchitectureGraph.visualize = visualize


def _judge_visualize(given, state, calls, exc) -> None:
    nodes = state[0]
    aliases = given.get("aliases")
    HUB.acc.count("visualize_calls")
    w = {"given": {k: (v if isinstance(v, (str, int, float, bool, dict, type(None))) else repr(v)) for k, v in given.items()}, "nodes": sorted(nodes)}
    unknown = sorted(a for a in (aliases or {}) if a not in nodes)
    if unknown:
        HUB.acc.count("c17_unknown_alias_cases")
        if exc is None:
            HUB.violation("C17", "unknown-alias-accepted", f"alias for non-existing module {unknown} was not rejected", w)
        elif not any(u in str(exc) for u in unknown):
            HUB.violation("C17", "unknown-alias-error-does-not-name-module", f"error {type(exc).__name__}: {exc} does not name {unknown}", w)
        elif calls:
            HUB.violation("C17", "drawn-despite-unknown-alias", "drawing backend was called although an aliased module does not exist", w)
        return
    if exc is not None:
        HUB.violation("C17", f"visualize-raises-{type(exc).__name__}", f"visualize raised {exc}", w)
        return
    if len(calls) != 1:
        HUB.violation("C17", "backend-call-count", f"drawing backend called {len(calls)} times", w)
        return
    HUB.acc.count("c17_judged")
    kw = calls[0]["kwargs"]
    if calls[0]["nodes"] != nodes:
        HUB.violation("C17", "wrong-graph-drawn", "graph handed to the backend has other nodes than the architecture", w)
    if aliases is not None:
        labels = kw.get("labels")
        if "aliases" in kw:
            HUB.violation("C17", "aliases-passed-to-backend", "'aliases' was handed to the drawing backend", w)
        if not isinstance(labels, dict) or set(labels) != set(nodes):
            HUB.violation("C17", "labels-do-not-cover-modules", "labels are not given for exactly the modules of the architecture", dict(w, labels=labels if isinstance(labels, dict) else repr(labels)))
        else:
            wrong = {m: (labels[m], r_label(m, aliases)) for m in nodes if labels[m] != r_label(m, aliases)}
            if wrong:
                m = sorted(wrong)[0]
                from .refmodel.names import is_ancestor

                sibling = any(m.startswith(a) and not (m == a or is_ancestor(a, m)) for a in aliases)
                HUB.violation("C17", "label-startswith" if sibling else "label-wrong", f"label of {m} is {wrong[m][0]!r}, expected {wrong[m][1]!r}", dict(w, wrong={k: list(v) for k, v in wrong.items()}))
            if any(a != m and m.startswith(a) and not is_ancestor_(a, m) for a in aliases for m in nodes):
                HUB.acc.count("c17_prefix_sibling_alias_cases")
    elif "labels" in kw and "labels" not in given:
        HUB.violation("C17", "labels-invented", "labels handed to the backend although no aliases were given", w)
    if "spacing" in given:
        HUB.acc.count("c17_spacing_cases")
        if "spacing" in kw:
            HUB.violation("C17", "spacing-passed-to-backend", "'spacing' was handed to the drawing backend", w)
        pos = kw.get("pos")
        if not isinstance(pos, dict) or set(pos) != set(nodes):
            HUB.violation("C17", "spacing-not-turned-into-pos", "'spacing' was not turned into a position per module", w)
    for k, v in given.items():
        if k in ("spacing", "aliases"):
            continue
        HUB.acc.count("c17_passthrough_kwargs")
        if k not in kw or kw[k] is not v and kw[k] != v:
            HUB.violation("C17", "kwarg-not-passed-through", f"drawing option {k!r} was dropped or altered", w)
    for k in kw:
        if k not in given and k not in ("labels", "pos"):
            HUB.violation("C17", "kwarg-invented", f"drawing option {k!r} was invented", w)


def is_ancestor_(a, m):
    from .refmodel.names import is_ancestor

    return is_ancestor(a, m)


# ---------------------------------------------------------------------------------
# contracts (icontract when installed, plain wrappers otherwise) on the three query methods of
# the evaluable (C03: returned pairs are exactly the imports between the requested sets) and on
# convert_partial_match_to_regex (C08).  Conditions record and return True: a contract never
# raises into the library.
# ---------------------------------------------------------------------------------


def _fsel(f, mods):
    from .refmodel import rules as rrule

    kind = "sub" if f.identifier_is_parent_module else "named"
    return rrule.sel((kind, f.identifier), mods), kind, f.identifier


def _pairs(lst):
    return {(a.identifier, b.identifier) for a, b in lst}


def _query_post_get_dependencies(self, dependents, dependent_upons, result):
    st = graph_state(self)
    if st is None or any(f.identifier_is_regex for f in list(dependents) + list(dependent_upons)):
        return True
    mods, imps = truth_from_state(st)
    HUB.acc.count("contract_get_dependencies")
    fd = {(("sub" if f.identifier_is_parent_module else "named"), f.identifier): f for f in dependents}
    fu = {(("sub" if f.identifier_is_parent_module else "named"), f.identifier): f for f in dependent_upons}
    for (md, mu), lst in result.items():
        kd = ("named" if md.is_single_module else "sub", md.identifier)
        ku = ("named" if mu.is_single_module else "sub", mu.identifier)
        if kd not in fd or ku not in fu or kd[1] not in mods or ku[1] not in mods:
            continue
        sd, _, _ = _fsel(fd[kd], mods)
        su, _, _ = _fsel(fu[ku], mods)
        # "If one or both of the modules are defined by their parent module, this parent module is
        # excluded from possible matches" (docstring of get_dependencies): on either side
        parents = {k[1] for k in (kd, ku) if k[0] == "sub"}
        exp = {(a, b) for a, b in imps if a in sd and b in su and a not in parents and b not in parents}
        got = _pairs(lst)
        if got != exp and "C03" in HUB.judges:
            HUB.violation("C03", "query:get_dependencies", f"get_dependencies({kd}, {ku}) returned pairs that are not exactly the imports between the two module sets", {"dependent": kd, "dependent_upon": ku, "extra": sorted(got - exp), "missing": sorted(exp - got), "mods": sorted(mods), "imps": sorted(imps)})
    return True


def _query_post_other(direction):
    def post(self, dependents, dependent_upons, result):
        st = graph_state(self)
        if st is None or any(f.identifier_is_regex for f in list(dependents) + list(dependent_upons)):
            return True
        mods, imps = truth_from_state(st)
        from .refmodel.names import pairwise_unrelated

        names = [f.identifier for f in list(dependents) + list(dependent_upons)]
        if any(n not in mods for n in names):
            return True
        HUB.acc.count("contract_other_dependencies")
        subjects = list(dependents) if direction == "import" else list(dependent_upons)
        objects = list(dependent_upons) if direction == "import" else list(dependents)
        # strict only where unambiguous: different filters pairwise unrelated (the alias case
        # subject == object is handled: an object equal to the subject excludes nothing)
        distinct = {(f.identifier_is_parent_module, f.identifier) for f in subjects} | {(f.identifier_is_parent_module, f.identifier) for f in objects}
        ids = sorted(i for _k, i in distinct)
        if len(set(ids)) != len(ids) or not pairwise_unrelated(ids):
            return True
        for key, lst in result.items():
            cand = [f for f in subjects if f.identifier == key.identifier and f.identifier_is_parent_module != key.is_single_module]
            if len(cand) != 1:
                continue
            s = cand[0]
            ss, skind, sname = _fsel(s, mods)
            oset = set()
            for o in objects:
                if o == s:
                    continue
                oset |= _fsel(o, mods)[0]
            if direction == "import":
                req = {(a, b) for a, b in imps if a in ss and b not in ss and b not in oset and b != sname}
                opt = {(a, b) for a, b in imps if a in ss and b == sname and skind == "sub"}
            else:
                req = {(a, b) for a, b in imps if b in ss and a not in ss and a not in oset and a != sname}
                opt = {(a, b) for a, b in imps if b in ss and a == sname and skind == "sub"}
            got = _pairs(lst)
            if not (req <= got <= req | opt) and "C03" in HUB.judges:
                HUB.violation("C03", f"query:other-dependencies:{direction}", "the 'other dependencies' query returned pairs that are not exactly the imports between the module and something else", {"module": [skind, sname], "objects": [[("sub" if o.identifier_is_parent_module else "named"), o.identifier] for o in objects], "extra": sorted(got - req - opt), "missing": sorted(req - got), "mods": sorted(mods), "imps": sorted(imps)})
        return True

    return post


def _convert_post(match, result):
    import re as _re

    from .refmodel import glob as rglob

    HUB.acc.count("contract_convert_partial_match")
    try:
        rx = _re.compile(result)
    except _re.error:
        HUB.violation("C08", "convert-invalid-regex", f"convert_partial_match_to_regex({match!r}) produced an invalid regex", {"pattern": match, "regex": result})
        return True
    lead, trail, text = rglob.split(match)
    probes = {text, "x" + text, text + "x", "x" + text + "x", text[:-1] if text else "y", "/abs/" + text, text + "/sub", text.replace(".", "x") if "." in text else text + "."}
    for sprobe in probes:
        if (rx.match(sprobe) is not None) != rglob.matches(match, sprobe) and "C08" in HUB.judges:
            HUB.violation("C08", f"convert-contract:{'*' if lead else ''}text{'*' if trail else ''}", f"pattern {match!r} vs {sprobe!r}: regex {result!r} disagrees with the documented glob meaning", {"pattern": match, "string": sprobe, "regex": result})
            break
    return True


def _install_contracts():
    from pytestarch.eval_structure.evaluable_graph import EvaluableArchitectureGraph
    import pytestarch.pytestarch as entry
    import pytestarch.query_language.rule as rule_mod
    import pytestarch.utils.partial_match_to_regex_converter as conv

    try:
        import icontract

        HUB.contracts_backend = "icontract " + getattr(icontract, "__version__", "")

        def ensure(cond, fn):
            return icontract.ensure(cond, error=lambda **kw: AssertionError("pta_verif contract (never raised: conditions return True)"))(fn)
    except Exception:  # noqa: BLE001
        HUB.contracts_backend = "plain wrappers (icontract not importable)"

        def ensure(cond, fn):
            import inspect

            sig = inspect.signature(fn)
            names = [n for n in inspect.signature(cond).parameters if n != "result"]

            @functools.wraps(fn)
            def wrapper(*a, **k):
                r = fn(*a, **k)
                ba = sig.bind(*a, **k)
                ba.apply_defaults()
                cond(**{n: ba.arguments[n] for n in names}, result=r)
                return r

            return wrapper

    def guarded(cond):
        def g(*a, **k):
            if not HUB.active:
                return True
            try:
                return cond(*a, **k)
            except Exception as e:  # noqa: BLE001
                HUB.acc.mark_inconclusive(f"contract condition crashed: {type(e).__name__}: {e}")
                return True

        g.__signature__ = __import__("inspect").signature(cond)
        g.__name__ = cond.__name__
        return g

    E = EvaluableArchitectureGraph
    gd = guarded(_query_post_get_dependencies)
    E.get_dependencies = ensure(gd, E.__dict__["get_dependencies"])
    p1 = guarded(_query_post_other("import"))
    E.any_dependencies_from_dependents_to_modules_other_than_dependent_upons = ensure(p1, E.__dict__["any_dependencies_from_dependents_to_modules_other_than_dependent_upons"])
    p2 = guarded(_query_post_other("be"))
    E.any_other_dependencies_on_dependent_upons_than_from_dependents = ensure(p2, E.__dict__["any_other_dependencies_on_dependent_upons_than_from_dependents"])
    wrapped = ensure(guarded(_convert_post), conv.convert_partial_match_to_regex)
    conv.convert_partial_match_to_regex = wrapped
    entry.convert_partial_match_to_regex = wrapped
    rule_mod.convert_partial_match_to_regex = wrapped


# ---------------------------------------------------------------------------------
# install
# ---------------------------------------------------------------------------------


def install(hub) -> None:
    from pytestarch.query_language.layered_architecture_rule import LayeredArchitecture, LayerRule

    _wrap_scan()
    for n in LAYER_RULE_FLUENT:
        _wrap_fluent(LayerRule, n)
    for n in ARCH_FLUENT:
        _wrap_fluent(LayeredArchitecture, n)
    _wrap_layer_rule_assert()
    _wrap_puml_parse()
    _wrap_diagram_rule()
    _wrap_draw()
    try:
        _install_contracts()
    except Exception as e:  # noqa: BLE001
        hub.contracts_backend = f"not installed: {type(e).__name__}: {e}"
