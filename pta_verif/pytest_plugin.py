"""pytest plugin: arms the monitors inside the repository's own test run.

  cd /repo && PTA_VERIF_MONITORS=1 PYTHONPATH=/verif /venv/bin/python -m pytest -p pta_verif.pytest_plugin \
      -q -p no:cacheprovider --deselect tests/test_architecture.py

With PTA_VERIF_MONITORS unset the plugin does nothing (the repository is never edited: there are no source
hooks).  At the end of the session the observations are written to $PTA_PLUGIN_REPORT
(default /verif/evidence/repo_tests_under_monitors.json) and monitor hits are printed.
"""
from __future__ import annotations

import json
import os

ARMED = os.environ.get("PTA_VERIF_MONITORS") == "1"

if ARMED:
    from . import boot

    boot.assert_tree()
    from . import monitors

    HUB = monitors.install()
    HUB.auto_attribute = True
    HUB.draw_passthrough = True


def pytest_runtest_setup(item):
    if ARMED:
        HUB.case = {"kind": "repo-test", "nodeid": item.nodeid}


def pytest_sessionfinish(session, exitstatus):
    if not ARMED:
        return
    acc = HUB.acc
    out = {
        "counters": dict(sorted(acc.counters.items())),
        "histograms": {k: dict(v) for k, v in acc.hists.items()},
        "violations": {k: {"count": acc.violation_counts[k], "first": v[0]} for k, v in acc.violations.items()},
        "inconclusive": acc.inconclusive,
        "pytest_exitstatus": int(exitstatus),
    }
    path = os.environ.get("PTA_PLUGIN_REPORT") or os.path.join(boot.VERIF, "evidence", "repo_tests_under_monitors.json")
    with open(path, "w") as f:
        json.dump(out, f, indent=1, sort_keys=True, default=str)
    tr = session.config.pluginmanager.get_plugin("terminalreporter")
    lines = [f"pta_verif monitors: {acc.counters['rule_events']} rule evaluations, {acc.counters['layer_rule_events']} layer-rule evaluations, "
             f"{acc.counters['scans_judged']} scans, {acc.counters['puml_parse_calls']} diagram parses, {acc.counters['purity_snapshots']} purity snapshots observed"]
    for k, v in sorted(acc.violations.items()):
        lines.append(f"MONITOR-HIT {k} x{acc.violation_counts[k]}: {v[0]['what']} [{(v[0]['case'] or {}).get('nodeid')}]")
    for line in lines:
        if tr:
            tr.write_line(line)
        else:
            print(line)
