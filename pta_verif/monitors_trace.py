"""Trace monitors: every fluent call feeds a specification automaton (refmodel/automata.py).

C16: builder calls that the automaton classifies as violating must be rejected with
     ImproperlyConfigured at that call; accepted definitions must list what was supplied.
C13: an evaluation (assert_applies / entry point) that the automaton classifies MUST_RAISE, or that
     mentions an unknown module / unmatched regex / undefined layer, must not produce a verdict.
"""
from __future__ import annotations

import os
import re

from . import monitors
from .monitors import HUB, POST_HOOKS, trace_of
from .refmodel import automata as A


def _ok_entries(obj, upto_entry=None):
    out = []
    for e in trace_of(obj):
        if e is upto_entry:
            break
        if e[2] == "ok" and e[0] != "assert_applies":
            out.append(e)
    return out


def _w(obj, entry):
    return {"trace": [list(e) for e in trace_of(obj)], "call": list(entry)}


# -- LayeredArchitecture (C16) ----------------------------------------------------------


def verify_arch_reads_back(arch, context) -> None:
    """The accepted definition must keep listing exactly what was supplied - also later, e.g. after
    layer rules have been built on it."""
    a = A.ArchAutomaton()
    for name, args, _res in _ok_entries(arch):
        if name != "with_layer":
            a.feed(name, args)
    HUB.acc.count("c16_definitions_rechecked_from_rules")
    try:
        s = str(arch)
        listed = {n: [f.identifier for f in arch[n]] for n, _ in a.layers}
    except Exception as e:  # noqa: BLE001
        HUB.violation("C16", f"definition-unreadable-{type(e).__name__}", f"accepted definition cannot be read back: {e}", context)
        return
    exp = {n: (ms or []) for n, ms in a.layers}
    if s != a.expected_str() or listed != exp:
        HUB.violation("C16", "accepted-definition-changed-later", "an accepted layer definition no longer lists exactly the supplied layers and modules", dict(context, str=s, expected=a.expected_str()))


def arch_hook(obj, entry) -> None:
    if "C16" not in HUB.judges:
        return
    a = A.ArchAutomaton()
    for name, args, _res in _ok_entries(obj, entry):
        a.feed(name, args) if name != "with_layer" else None
    name, args, res = entry
    HUB.acc.count("c16_arch_calls")
    if name == "with_layer":
        return
    why = a.call_must_raise(name, args)
    if why:
        HUB.acc.count("c16_arch_violating_calls")
        HUB.acc.hist("c16_violating_kind", why.split(" [")[0][:40] if "already assigned" not in why else ("duplicate module via " + ("list" if isinstance(args[0], list) else "string")))
        if res == "ok":
            key = "string-form-duplicate" if ("already assigned" in why and not isinstance(args[0], list)) else "list-form-duplicate" if "already assigned" in why else why.replace(" ", "-")[:50]
            HUB.violation("C16", key, f"{name}({args}) accepted although: {why}", _w(obj, entry))
        elif res != "ImproperlyConfigured":
            HUB.violation("C16", f"rejected-with-{res}", f"{name}({args}) violates ({why}) but was rejected with {res} instead of a configuration error", _w(obj, entry))
        return
    if res != "ok":
        HUB.acc.count("c16_wellformed_rejected")
        return
    a.feed(name, args)
    HUB.acc.count("c16_accepted_definitions_checked")
    try:
        s = str(obj)
        listed = {n: [f.identifier for f in obj[n]] for n, _ in a.layers}
    except Exception as e:  # noqa: BLE001
        HUB.violation("C16", f"definition-unreadable-{type(e).__name__}", f"accepted definition cannot be read back: {e}", _w(obj, entry))
        return
    exp = {n: (ms or []) for n, ms in a.layers}
    if s != a.expected_str() or listed != exp or list(listed) != [n for n, _ in a.layers]:
        HUB.violation("C16", "accepted-definition-differs", "accepted definition does not list exactly the supplied layers and modules in order", dict(_w(obj, entry), str=s, expected=a.expected_str(), listed=listed))


# -- LayerRule (C16 ordering at the call, C13 at evaluation) --------------------------------


def _layer_automaton(obj, upto=None):
    a = A.LayerRuleAutomaton()
    for name, args, _res in _ok_entries(obj, upto):
        a.feed(name, args)
    return a


def layer_rule_hook(obj, entry) -> None:
    name, args, res = entry
    a = _layer_automaton(obj, entry)
    HUB.acc.count("layer_rule_builder_calls")
    arch = getattr(obj, "_architecture", None)
    if arch is not None and "C16" in HUB.judges and trace_of(arch):
        verify_arch_reads_back(arch, _w(obj, entry))
    why = a.call_must_raise(name, args)
    if why and "C16" in HUB.judges:
        HUB.acc.count("c16_rule_violating_calls")
        HUB.acc.hist("c16_violating_kind", why)
        if res == "ok":
            HUB.violation("C16", why.replace(" ", "-"), f"LayerRule.{name}({args}) accepted although: {why}", _w(obj, entry))
        elif res != "ImproperlyConfigured":
            HUB.violation("C16", f"rejected-with-{res}", f"LayerRule.{name}({args}) violates ({why}) but was rejected with {res}", _w(obj, entry))


def judge_layer_rule_eval(obj, ev) -> None:
    if "C13" not in HUB.judges:
        return
    a = _layer_automaton(obj)
    cls, reasons = a.classify()
    HUB.acc.hist("c13_layer_class", cls)
    HUB.acc.count("c13_layer_evaluations")
    if cls == A.MUST_RAISE:
        HUB.acc.hist("c13_exception_types", ev.exc_type or ev.outcome)
        if ev.outcome in ("pass", "fail"):
            key = "any-layer-with-should" if any("any layer" in r for r in reasons) else "incomplete-layer-rule:" + reasons[0].replace(" ", "-")
            HUB.violation("C13", key, f"layer rule is {reasons} but assert_applies produced the verdict '{ev.outcome}'", {"trace": ev.extra.get("trace"), "reasons": reasons})


# -- Rule (C13) ------------------------------------------------------------------------------


def _rule_automaton(obj, upto=None):
    a = A.RuleAutomaton()
    for name, args, _res in _ok_entries(obj, upto):
        a.feed(name, args)
    return a


def rule_hook(obj, entry) -> None:
    if "C13" not in HUB.judges:
        return
    name, args, res = entry
    a = _rule_automaton(obj, entry)
    why = a.call_must_raise(name)
    HUB.acc.count("rule_builder_calls")
    if why:
        HUB.acc.count("c13_calls_that_must_raise")
        if res == "ok":
            HUB.violation("C13", "module-list-before-subject-or-import-type", f"Rule.{name}({args}) accepted although: {why}", _w(obj, entry))


def judge_rule_eval(obj, ev) -> None:
    if "C13" not in HUB.judges or not ev.cfg.get("default_matcher"):
        return
    a = _rule_automaton(obj)
    cls, reasons = a.classify()
    HUB.acc.hist("c13_rule_class", cls)
    HUB.acc.count("c13_rule_evaluations")
    w = {"trace": ev.extra.get("trace"), "cfg": ev.cfg, "outcome": ev.outcome, "message": ev.message}
    if cls == A.MUST_RAISE:
        HUB.acc.hist("c13_exception_types", ev.exc_type or ev.outcome)
        if ev.outcome in ("pass", "fail"):
            key = "anything-with-should" if any("anything" in r for r in reasons) else "incomplete-rule:" + reasons[0].replace(" ", "-")
            HUB.violation("C13", key, f"rule is {reasons} but assert_applies produced the verdict '{ev.outcome}'", dict(w, reasons=reasons))
        return
    if ev.truth is None:
        return
    mods = ev.truth[0]
    # with the 'anything' object the documentation defines no explicit objects: a (redundant) object
    # list given after import_anything() is not part of the rule
    for side in ("subs",) if ev.cfg.get("anything") else ("subs", "objs"):
        for kind, name in ev.cfg[side]:
            if kind == "regex":
                try:
                    matched = any(re.match(name, m) for m in mods)
                except re.error:
                    continue
                if not matched:
                    HUB.acc.count("c13_unmatched_regex_evaluations")
                    HUB.acc.hist("c13_exception_types", ev.exc_type or ev.outcome)
                    if ev.outcome in ("pass", "fail"):
                        HUB.violation("C13", "unmatched-regex-verdict", f"regex {name!r} matches no module but the rule produced the verdict '{ev.outcome}'", w)
                        return
            elif name not in mods:
                HUB.acc.count("c13_unknown_module_evaluations")
                HUB.acc.hist("c13_exception_types", ev.exc_type or ev.outcome)
                if ev.outcome in ("pass", "fail"):
                    pos = "subject" if side == "subs" else "object"
                    HUB.violation("C13", f"unknown-module-verdict:{pos}:{kind}:{_shape(ev.cfg)}", f"module {name!r} does not exist in the architecture but the rule produced the verdict '{ev.outcome}'", w)
                    return


def _shape(cfg):
    from .refmodel import rules as rrule

    try:
        return rrule.shape(cfg)
    except Exception:  # noqa: BLE001
        return "?"


# -- DiagramRule (C13) ---------------------------------------------------------------------------


def judge_diagram_eval(obj, ev) -> None:
    if "C13" not in HUB.judges:
        return
    HUB.acc.count("c13_diagram_evaluations")
    file = ev.cfg.get("file")
    reason = None
    if file is None:
        reason = "no file"
    else:
        try:
            text = open(file).read()
            i = text.find("@startuml")
            if i < 0 or text.find("@enduml", i) < 0:
                reason = "no start/end tags"  # incl. an end tag that only occurs BEFORE the start tag
        except OSError:
            reason = "unreadable file"
    if reason is None and ev.truth is not None:
        from .monitors_more import _puml_truth_for

        truth, _how = _puml_truth_for(file)
        if truth is not None and not truth[2]:
            base = ev.cfg.get("base")
            comps = {(base + "." + c) if base else c for c in truth[0]}
            missing = sorted(c for c in comps if c not in ev.truth[0])
            if missing:
                reason = "component absent from the architecture"
                HUB.acc.count("c13_diagram_unknown_component_evaluations")
    if reason:
        HUB.acc.hist("c13_exception_types", ev.exc_type or ev.outcome)
        HUB.acc.hist("c13_diagram_class", reason)
        if ev.outcome in ("pass", "fail"):
            HUB.violation("C13", "diagram-rule-" + reason.replace(" ", "-").replace("/", "-"), f"diagram rule with {reason} produced the verdict '{ev.outcome}'", {"cfg": ev.cfg, "trace": ev.extra.get("trace")})


# -- entry point (C13) ---------------------------------------------------------------------------


def judge_entry_point(a: dict, outcome: str, exc_type) -> None:
    if "C13" not in HUB.judges:
        return
    reasons = entry_point_invalid_reasons(a)
    _judge_entry_point(a, outcome, exc_type, reasons)


def entry_point_invalid_reasons(a: dict) -> list:
    reasons = []
    if a.get("exclusions") and a.get("regex_exclusions"):
        reasons.append("exclusions and regex_exclusions both given")
    if a.get("external_exclusions") and a.get("regex_external_exclusions"):
        reasons.append("external_exclusions and regex_external_exclusions both given")
    if a.get("exclude_external_libraries") and (a.get("external_exclusions") or a.get("regex_external_exclusions")):
        reasons.append("external patterns while externals are excluded")
    try:
        root = os.path.realpath(os.fspath(a["root_path"]))
        mp = os.path.realpath(os.fspath(a["module_path"]))
        if not (mp == root or mp.startswith(root + os.sep)):
            reasons.append("module_path outside root_path")
    except Exception:  # noqa: BLE001
        pass
    return reasons


def _judge_entry_point(a, outcome, exc_type, reasons) -> None:
    HUB.acc.count("c13_entry_point_calls")
    if reasons:
        HUB.acc.count("c13_entry_point_invalid_calls")
        HUB.acc.hist("c13_entry_invalid", "+".join(reasons))
        HUB.acc.hist("c13_exception_types", exc_type or outcome)
        if outcome == "ok":
            HUB.violation("C13", "invalid-options-accepted:" + reasons[0].replace(" ", "-"), f"get_evaluable_architecture accepted an invalid request: {reasons}", {"args": {k: (list(v) if isinstance(v, tuple) else str(v) if not isinstance(v, (bool, int, type(None))) else v) for k, v in a.items() if not k.startswith('_')}})


def install() -> None:
    from pytestarch.query_language.layered_architecture_rule import LayeredArchitecture, LayerRule
    from pytestarch.query_language.rule import Rule

    POST_HOOKS.setdefault(LayeredArchitecture, []).append(arch_hook)
    POST_HOOKS.setdefault(LayerRule, []).append(layer_rule_hook)
    POST_HOOKS.setdefault(Rule, []).append(rule_hook)
