"""Makes sure the code under observation is the working tree of the repository.

PTA_REPO (default /repo) exists only so that the self-audit can point the very same
checks at a scratch copy carrying a mutant; registered commands never set it.
"""
from __future__ import annotations

import os
import sys

VERIF = os.path.dirname(os.path.dirname(os.path.abspath(__file__)))
REPO = os.path.realpath(os.environ.get("PTA_REPO", "/repo"))
SRC = os.path.join(REPO, "src")

os.environ.setdefault("MPLBACKEND", "Agg")

if SRC not in sys.path[:1]:
    sys.path.insert(0, SRC)
_deps = os.path.join(VERIF, ".deps")
if os.path.isdir(_deps) and _deps not in sys.path:
    sys.path.append(_deps)


def assert_tree() -> str:
    import pytestarch

    f = os.path.realpath(pytestarch.__file__)
    if not f.startswith(SRC + os.sep):
        raise SystemExit(f"pta_verif: pytestarch imported from {f}, expected under {SRC}")
    return f


def scratch_root() -> str:
    for d in ("/dev/shm", os.environ.get("TMPDIR") or "/tmp"):
        if os.path.isdir(d) and os.access(d, os.W_OK):
            return d
    return "/tmp"
