"""Enumerates every statement-list position the running interpreter's grammar offers and
builds valid Python source with given statements placed at a (nested) position.

Positions are read from the ASDL signatures in the ast node classes' docstrings, so a new
compound statement in a future interpreter shows up by itself; a position the generic builder
cannot instantiate is returned in `unbuilt` (an inconclusive marker, never a silent pass).
"""
from __future__ import annotations

import ast
import re

_SIG = re.compile(r"(\w+)\((.*)\)\s*$")


def _fields(cls):
    doc = (cls.__doc__ or "").strip().split("\n")[0].strip()
    m = _SIG.match(doc)
    if not m or m.group(1) != cls.__name__:
        return None
    out = []
    for part in m.group(2).split(","):
        part = part.strip()
        if not part:
            continue
        t, n = part.rsplit(" ", 1)
        out.append((t.strip(), n.strip()))
    return out


def _node_classes(base):
    return sorted(
        (c for c in vars(ast).values() if isinstance(c, type) and issubclass(c, base) and c is not base and _fields(c) is not None),
        key=lambda c: c.__name__,
    )


SUB = {"excepthandler*": ast.ExceptHandler, "match_case*": ast.match_case}


def positions():
    """List of positions; a position is a tuple of (class name, field) steps: one step for a
    stmt* field of a statement class, two for stmt* fields reached through a handler / case list."""
    out = []
    for cls in _node_classes(ast.stmt):
        for t, n in _fields(cls):
            if t == "stmt*":
                out.append(((cls.__name__, n),))
            elif t in SUB:
                sub = SUB[t]
                for t2, n2 in _fields(sub):
                    if t2 == "stmt*":
                        out.append(((cls.__name__, n), (sub.__name__, n2)))
    return out


class Unbuildable(Exception):
    pass


_counter = [0]


def _fresh(prefix="v"):
    _counter[0] += 1
    return f"{prefix}{_counter[0]}"


def _name(ctx=None):
    return ast.Name(id="x", ctx=ctx or ast.Load())


def _fill(cls, inner_field, inner):
    """Instance of cls with `inner_field` = inner and every other field minimal but valid."""
    kw = {}
    fields = _fields(cls)
    names = [n for _, n in fields]
    for t, n in fields:
        if n == inner_field:
            kw[n] = inner
            continue
        if t == "stmt*":
            # body must not be empty; orelse/finalbody may be - but Try needs handlers or finalbody
            kw[n] = [ast.Pass()] if n == "body" else []
        elif t == "expr":
            kw[n] = _name(ast.Store()) if n == "target" else _name()
        elif t == "expr?":
            kw[n] = _name() if (cls is ast.ExceptHandler and n == "type") else None
        elif t in ("expr*", "keyword*", "type_param*"):
            kw[n] = []
        elif t == "identifier":
            kw[n] = _fresh("n")
        elif t in ("identifier?", "string?", "int?"):
            kw[n] = None
        elif t == "arguments":
            kw[n] = ast.arguments(posonlyargs=[], args=[], vararg=None, kwonlyargs=[], kw_defaults=[], kwarg=None, defaults=[])
        elif t == "withitem*":
            kw[n] = [ast.withitem(context_expr=_name(), optional_vars=None)]
        elif t == "excepthandler*":
            kw[n] = [ast.ExceptHandler(type=_name(), name=None, body=[ast.Pass()])]
        elif t == "match_case*":
            kw[n] = [ast.match_case(pattern=ast.MatchAs(pattern=None, name=None), guard=None, body=[ast.Pass()])]
        elif t == "pattern":
            kw[n] = ast.MatchAs(pattern=None, name=None)
        elif t == "int":
            kw[n] = 0
        else:
            raise Unbuildable(f"{cls.__name__}.{n}: field type {t}")
    if "handlers" in names and "finalbody" in names and inner_field == "orelse":
        pass  # handlers already present
    return cls(**kw)


def wrap(position, inner):
    """Statement (list) that contains `inner` (list of stmt) at `position`."""
    if len(position) == 1:
        (cname, field), = position
        node = _fill(getattr(ast, cname), field, inner)
    else:
        (cname, cfield), (sname, sfield) = position
        sub = _fill(getattr(ast, sname), sfield, inner)
        node = _fill(getattr(ast, cname), cfield, [sub])
    if isinstance(node, (ast.AsyncFor, ast.AsyncWith)):
        node = _fill(ast.AsyncFunctionDef, "body", [node])
    return [node]


def nest(path, inner):
    """path: outermost position first."""
    stmts = inner
    for pos in reversed(path):
        stmts = wrap(pos, stmts)
    return stmts


def source(stmts) -> str:
    mod = ast.Module(body=stmts, type_ignores=[])
    ast.fix_missing_locations(mod)
    src = ast.unparse(mod) + "\n"
    compile(src, "<generated>", "exec")  # proves the file is valid Python
    return src


def pos_label(pos) -> str:
    return "/".join(f"{c}.{f}" for c, f in pos)


def path_label(path) -> str:
    return " > ".join(pos_label(p) for p in path) if path else "Module.body"


def build_all(depth):
    """-> (paths, unbuilt): every nesting of positions of length 1..depth that compiles."""
    import itertools

    base = positions()
    ok_pos, unbuilt = [], []
    for p in base:
        try:
            source(wrap(p, [ast.Pass()]))
            ok_pos.append(p)
        except Exception as e:  # noqa: BLE001
            unbuilt.append((pos_label(p), f"{type(e).__name__}: {e}"))
    paths = [()]
    for d in range(1, depth + 1):
        for combo in itertools.product(ok_pos, repeat=d):
            paths.append(combo)
    return base, ok_pos, paths, unbuilt
