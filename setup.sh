#!/bin/bash
# Offline setup: puts icontract (+asttokens) beside the repository's interpreter in
# /verif/.deps (git-ignored, so absent after a restore). Safe to run concurrently.
set -u
HERE="$(cd "$(dirname "${BASH_SOURCE[0]}")" && pwd)"
DEPS="$HERE/.deps"
if [ -f "$DEPS/.ok" ]; then exit 0; fi
mkdir -p "$DEPS"
(
  flock 9
  if [ ! -f "$DEPS/.ok" ]; then
    PIP_NO_INDEX=1 /venv/bin/python -m pip install --quiet --no-index --find-links /opt/veriftools/wheels \
      --target "$DEPS" icontract >/dev/null 2>&1 && touch "$DEPS/.ok"
  fi
) 9>"$DEPS/.lock"
if [ -f "$DEPS/.ok" ]; then echo "deps ok"; else echo "icontract not installable: contracts degrade to plain wrappers"; fi
exit 0
