#!/bin/bash
# tools/tryseed.sh <seed-id or patch file> <check id> [tier]  - applies the change in a scratch worktree of /repo under
# /dev/shm, runs one check against it (PTA_REPO), prints the verdict lines, removes the worktree.
set -u
S="$1"; C="$2"; T="${3:-quick}"
HERE="$(cd "$(dirname "${BASH_SOURCE[0]}")/.." && pwd)"
P="$S"; [ -f "$P" ] || P="$HERE/seeded/$S/patch.diff"; [ -f "$P" ] || P="$HERE/mutants/$S.patch"
N="$(basename "$S" .patch)-$C-$$"
WT="/dev/shm/pta_try/$N/pytestarch"
mkdir -p "$(dirname "$WT")"
git -C /repo worktree add --detach "$WT" HEAD >/dev/null 2>&1 || { echo "worktree failed"; exit 3; }
( cd "$WT" && git apply "$P" ) || { echo "apply failed"; git -C /repo worktree remove --force "$WT"; exit 3; }
PTA_REPO="$WT" PTA_EVIDENCE_DIR="/dev/shm/pta_try/$N/evidence" PTA_REPLAY_DIR="/dev/shm/pta_try/$N/replays" "$HERE/check" "$C" --tier "$T" 2>&1 | grep -E "VIOLATION|mechanism=|held|inconclusive|KNOWN|crashed" | cut -c1-400 | head -${LINES_MAX:-12}
git -C /repo worktree remove --force "$WT" >/dev/null 2>&1
rm -rf "/dev/shm/pta_try/$N"
git -C /repo worktree prune
