#!/bin/bash
# fast regression run of the repository's own tests (guard off). Expected on this image:
# "5 failed, 851 passed, 5 deselected" - the 5 failures are tests/eval_structure_generation/test_module_graph.py,
# which only pass when the checkout directory is called "pytestarch"; tests/test_architecture.py loops
# until the timeout for the same reason and is deselected here (the full baseline command is in MANIFEST.hooks).
cd "${1:-/repo}" && /venv/bin/python -m pytest -q -p no:cacheprovider --timeout=900 --deselect tests/test_architecture.py 2>&1 | tail -1
