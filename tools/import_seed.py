#!/venv/bin/python
"""Verifies a sub-agent's seeded change myself and files it under /verif/seeded/<id>/.

for every /tmp/seed/Cxx/change_i:  patch applies to the clean worktree; the repository's tests pass with it;
demo.py exits 1 with the change and 0 without.  Only then patch.diff, demo.py, notes.md and meta.json are kept.
"""
import json, os, re, shutil, subprocess, sys

def sh(cmd, cwd=None, env=None, timeout=1800):
    p = subprocess.run(cmd, shell=True, cwd=cwd, env=env, capture_output=True, text=True, timeout=timeout)
    return p.returncode, (p.stdout + p.stderr)

def main():
    only = sys.argv[1:] or sorted(os.listdir("/tmp/seed"))
    for pid in [x for x in only if os.path.isdir(f"/tmp/seed/{x}")]:
        base = f"/tmp/seed/{pid}"
        wt = f"{base}/pytestarch"
        for ch in sorted(d for d in os.listdir(base) if d.startswith("change_")):
            src = f"{base}/{ch}"
            name = f"{pid}_{ch.split('_')[1]}"
            dst = f"/verif/seeded/{name}"
            if os.path.exists(dst + "/meta.json"):
                continue
            if not all(os.path.exists(f"{src}/{f}") for f in ("patch.diff", "demo.py")):
                print(name, "incomplete"); continue
            env = dict(os.environ, PYTHONPATH=f"{wt}/src")
            sh("git checkout -q -- . && git clean -fdq", cwd=wt)
            rc0, out0 = sh(f"/venv/bin/python {src}/demo.py", cwd=src, env=env, timeout=300)
            rc, out = sh(f"git apply {src}/patch.diff", cwd=wt)
            if rc:
                print(name, "patch does not apply:", out[-200:]); continue
            rct, outt = sh("/venv/bin/python -m pytest -q -p no:cacheprovider --timeout=900 -x 2>&1 | grep -E '[0-9]+ (passed|failed)' | tail -1", cwd=wt, env=env)
            rc1, out1 = sh(f"/venv/bin/python {src}/demo.py", cwd=src, env=env, timeout=300)
            sh("git checkout -q -- . && git clean -fdq", cwd=wt)
            tests_ok = bool(re.search(r"\d+ passed", outt)) and "failed" not in outt
            ok = rc0 == 0 and rc1 == 1 and tests_ok
            print(f"{name}: demo without={rc0} with={rc1} tests='{outt.strip()[:60]}' -> {'KEEP' if ok else 'REJECT'}")
            if not ok:
                continue
            os.makedirs(dst, exist_ok=True)
            for f in ("patch.diff", "demo.py", "notes.md"):
                if os.path.exists(f"{src}/{f}"):
                    shutil.copy(f"{src}/{f}", f"{dst}/{f}")
            notes = open(f"{src}/notes.md").read() if os.path.exists(f"{src}/notes.md") else ""
            meta = {
                "property": pid,
                "summary": " ".join(notes.strip().split("\n")[0:3])[:300],
                "needs_to_manifest": "see notes.md",
                "origin": "fresh sub-agent given only the property text and a scratch worktree of /repo",
                "verified_by_me": {
                    "patch_applies": True,
                    "repo_tests_with_change": outt.strip()[:80],
                    "demo_exit_without_change": rc0,
                    "demo_exit_with_change": rc1,
                    "demo_output_with_change": out1[-600:],
                },
                "ran": [f"git apply patch.diff (scratch worktree {wt})", "PYTHONPATH=<worktree>/src /venv/bin/python -m pytest -q -p no:cacheprovider --timeout=900 -x", "PYTHONPATH=<worktree>/src /venv/bin/python demo.py (with and without the change)"],
            }
            json.dump(meta, open(f"{dst}/meta.json", "w"), indent=1)

if __name__ == "__main__":
    main()
