#!/venv/bin/python
"""Regenerates /verif/MANIFEST.json from the property modules that exist under pta_verif/props."""
import importlib
import json
import os
import sys

HERE = os.path.dirname(os.path.dirname(os.path.abspath(__file__)))
sys.path.insert(0, HERE)
ALL = [f"C{i:02d}" for i in range(1, 18)]
BASELINE_OFF = "cd /repo && env -u PTA_VERIF_MONITORS /venv/bin/python -m pytest -ra -q -p no:cacheprovider --timeout=900 --continue-on-collection-errors"

COMMON_TEXT = (
    " Part of the workload (all of it for C13 / C16) is repeated under other interpreter settings - python -O, library warnings as errors, "
    "-X dev -B from an empty working directory, PYTHONIOENCODING=ascii with extra environment variables - and with the caller varied: arguments "
    "by keyword / by position, names as str-subclass / Enum members, rules written as statements on one name, kept objects copied "
    "(deepcopy / pickle), looked at (str / repr / properties) and re-used while earlier architectures die and their addresses are re-used."
)
EXTRA_TEXT = {
    "C01": " The idiom 'sub modules of X ... anything except X' (both readings of the ambiguity agree) is judged by the model as well.",
    "C02": " Scans also follow each other back to back, follow a failed scan, and re-read a tree that was edited in place with identical sizes and time stamps.",
    "C08": " Degenerate projects and patterns ('*', '**', '', patterns matching module_path itself, shell metacharacters in names) are scanned through five ways of calling the two entry points.",
    "C09": " Limits far beyond the depth (10^6, sys.maxsize) and flattened architectures used through a deepcopy / pickle copy are included.",
    "C10": " Without a level limit the external side is exact: every module outside module_path and every import of one must be accounted for by a reading of an import statement of the importer; every tree is also scanned with relative paths and with Path objects.",
    "C15": " Scan results must not depend on the spelling of the paths (Path objects with '..'), on earlier contents of the same path, or on earlier failed scans.",
}
checks, na = [], []
for pid in ALL:
    path = os.path.join(HERE, "pta_verif", "props", pid.lower() + ".py")
    if not os.path.exists(path):
        na.append({"property_id": pid, "reason": "check not built yet (work in progress; the property is decidable by runtime monitoring, see DESIGN.md section 2)"})
        continue
    m = importlib.import_module(f"pta_verif.props.{pid.lower()}")
    checks.append(
        {
            "property_id": pid,
            "quick_cmd": f"./check {pid} --tier quick",
            "thorough_cmd": f"./check {pid} --tier thorough",
            "evidence_file": f"/verif/evidence/{pid}.json",
            "replay_cmd_template": f"./check {pid} --replay {{path}}",
            "engine": "pta_verif",
            "level_claimed": {
                "category": getattr(m, "LEVEL", "exploration"),
                "text": m.LEVEL_TEXT + COMMON_TEXT + EXTRA_TEXT.get(pid, ""),
                "design_ref": f"DESIGN.md section 2, {pid}",
            },
            "level_note": m.LEVEL_NOTE,
            "technique": m.TECHNIQUE,
        }
    )

manifest = {
    "version": 1,
    "setup_cmd": "./setup.sh",
    "hooks": {
        "guard": "PTA_VERIF_MONITORS",
        "enable": "no source hooks: the monitors wrap pytestarch's public callables from outside (pta_verif/monitors.py); PTA_VERIF_MONITORS=1 only arms the harness-side pytest plugin (PYTHONPATH=/verif pytest -p pta_verif.pytest_plugin). Python has no build step; checks import /repo/src directly and assert it.",
        "baseline_off_cmd": BASELINE_OFF,
        "source_commits": [],
        "add_only": True,
    },
    "engines": [
        {
            "name": "pta_verif",
            "path": "/verif/pta_verif",
            "serves_properties": [c["property_id"] for c in checks],
            "kind_free_text": "runtime monitoring: online monitors (wrappers, reference-model post-conditions, invariant hooks, trace automata) at pytestarch's API boundary + offline checkers over recorded event logs, driven by exhaustive small-space sweeps, seeded random and adversarial workloads, sharded over subprocesses",
        }
    ],
    "checks": checks,
    "not_applicable": na,
    "notes": "Every check exits 0 (held on what was observed), 1 (VIOLATION line per new mechanism) or 2 (inconclusive: a floor on observed events was not met or a watchdog fired). Repository defects found by the monitors are repaired by 'fix:' commits and listed in KNOWN_FINDINGS.txt.",
}
with open(os.path.join(HERE, "MANIFEST.json"), "w") as f:
    json.dump(manifest, f, indent=1)
print(f"MANIFEST.json: {len(checks)} checks, {len(na)} not yet claimed")
