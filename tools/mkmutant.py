#!/venv/bin/python
"""Creates /verif/mutants/<name>.patch from a (file, old, new) replacement applied to a scratch worktree."""
import subprocess, sys, os
WT = "/dev/shm/mutwork/pytestarch"
def make(name, prop, desc, edits, checks=None):
    subprocess.run("git checkout -q -- . && git clean -fdq", shell=True, cwd=WT, check=True)
    for f, old, new in edits:
        p = os.path.join(WT, f)
        s = open(p).read()
        if s.count(old) == 1:
            open(p, "w").write(s.replace(old, new))
            continue
        # tolerate blank lines between the lines of `old`
        import re
        lines = [l for l in old.split("\n")]
        trail = lines and lines[-1] == ""
        if trail:
            lines = lines[:-1]
        rx = re.compile(r"\n(?:[ \t]*\n)*".join(re.escape(l) for l in lines) + ("\n" if trail else ""))
        ms = list(rx.finditer(s))
        assert len(ms) == 1, (name, f, len(ms))
        open(p, "w").write(s[: ms[0].start()] + new + s[ms[0].end():])
    diff = subprocess.run("git diff", shell=True, cwd=WT, capture_output=True, text=True).stdout
    assert diff.strip(), name
    head = f"# {desc}\n# property: {prop}\n" + (f"# checks: {','.join(checks)}\n" if checks else "")
    open(f"/verif/mutants/{name}.patch", "w").write(head + diff)
    subprocess.run("git checkout -q -- .", shell=True, cwd=WT, check=True)
    print("wrote", name)
