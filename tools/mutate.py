#!/venv/bin/python
"""Systematic single-operator mutation audit of zyskarch/pytestarch against the runtime monitors.

For every source file under src/pytestarch a list of single-point AST mutants is generated (comparison / boolean
operator flips, negated conditions, removed 'not', swapped True/False, off-by-one integer constants, dropped
statements of a few harmless-looking kinds, 'startswith(x + ".")' style separator drops, sorted()/set() removal).
Each mutant is written into a scratch git worktree of /repo under /dev/shm (a small pool that is reset between
mutants and removed at the end); the repository's own tests decide whether the mutant is 'realistic' (survives
them); survivors are run against the quick checks mapped to the mutated file (PTA_REPO points at the worktree),
stopping at the first check that fires.  Result: mutants/MUTATION_AUDIT.json + a summary on stdout.

  tools/mutate.py --list                      count mutants per file
  tools/mutate.py [--files f1,f2] [--max-per-file N] [--workers 6] [--seed 0]
"""
import argparse
import ast
import copy
import json
import os
import random
import re
import shutil
import subprocess
import sys
import time
from concurrent.futures import ThreadPoolExecutor
from queue import Queue

VERIF = os.path.dirname(os.path.dirname(os.path.abspath(__file__)))
REPO = "/repo"
BASE = "/dev/shm/pta_mutation"
SRC = "src/pytestarch"

CHECKS = [
    (r"diagram_extension/", ["C06", "C07", "C13"]),
    (r"eval_structure_generation/file_import/(file_filter|config)", ["C08", "C15", "C04"]),
    (r"eval_structure_generation/file_import/import_filter", ["C10", "C04", "C02"]),
    (r"eval_structure_generation/", ["C02", "C04", "C10", "C09", "C08"]),
    (r"pytestarch\.py", ["C04", "C08", "C10", "C13", "C09"]),
    (r"utils/partial_match", ["C08", "C11"]),
    (r"eval_structure/networkxgraph", ["C09", "C17", "C04", "C01", "C10", "C14"]),
    (r"eval_structure/evaluable_architecture", ["C05", "C14", "C03", "C01"]),
    (r"eval_structure/module_name_converter", ["C11", "C13", "C12"]),
    (r"eval_structure/", ["C01", "C03", "C12", "C05", "C14"]),
    (r"query_language/layered_architecture_rule", ["C16", "C05", "C13"]),
    (r"query_language/multiple_rule_applier", ["C07", "C13"]),
    (r"query_language/", ["C13", "C01", "C12", "C11", "C15"]),
    (r"rule_assessment/error_message/", ["C03", "C15", "C14", "C07"]),
    (r"rule_assessment/rule_check/layer_rule", ["C05", "C03", "C14"]),
    (r"rule_assessment/", ["C01", "C03", "C12", "C11", "C05", "C13"]),
]


def checks_for(rel):
    for pat, cs in CHECKS:
        if re.search(pat, rel):
            return cs
    return ["C01", "C02", "C04"]


def sh(cmd, cwd=None, env=None, timeout=1800):
    try:
        p = subprocess.run(cmd, shell=True, cwd=cwd, env=env, capture_output=True, text=True, timeout=timeout)
        return p.returncode, p.stdout + p.stderr
    except subprocess.TimeoutExpired:
        return 124, "timeout"


CMP = {ast.Eq: ast.NotEq, ast.NotEq: ast.Eq, ast.Lt: ast.LtE, ast.LtE: ast.Lt, ast.Gt: ast.GtE, ast.GtE: ast.Gt, ast.In: ast.NotIn, ast.NotIn: ast.In, ast.Is: ast.IsNot, ast.IsNot: ast.Is}


class Sites(ast.NodeVisitor):
    """Collects (kind, node-index-path) mutation sites; nodes are identified by their position in ast.walk order."""

    def __init__(self, tree):
        self.sites = []
        for i, n in enumerate(ast.walk(tree)):
            if isinstance(n, ast.Compare) and len(n.ops) == 1 and type(n.ops[0]) in CMP:
                self.sites.append(("cmp", i))
            elif isinstance(n, ast.BoolOp):
                self.sites.append(("boolop", i))
            elif isinstance(n, ast.UnaryOp) and isinstance(n.op, ast.Not):
                self.sites.append(("drop-not", i))
            elif isinstance(n, (ast.If, ast.While, ast.IfExp)):
                self.sites.append(("negate-test", i))
            elif isinstance(n, ast.Constant) and isinstance(n.value, bool):
                self.sites.append(("flip-bool", i))
            elif isinstance(n, ast.Constant) and isinstance(n.value, int) and not isinstance(n.value, bool) and abs(n.value) <= 3:
                self.sites.append(("int+1", i))
                if n.value > 0:
                    self.sites.append(("int-1", i))
            elif isinstance(n, ast.BinOp) and isinstance(n.op, ast.Add) and isinstance(n.right, ast.Constant) and n.right.value == ".":
                self.sites.append(("drop-dot-suffix", i))
            elif isinstance(n, ast.JoinedStr) and any(isinstance(v, ast.Constant) and v.value == "." for v in n.values):
                self.sites.append(("drop-dot-fstring", i))
            elif isinstance(n, ast.Call) and isinstance(n.func, ast.Name) and n.func.id in ("sorted", "set", "list", "tuple") and len(n.args) == 1 and not n.keywords:
                self.sites.append(("unwrap-" + n.func.id, i))
            elif isinstance(n, ast.Call) and isinstance(n.func, ast.Attribute) and n.func.attr in ("startswith", "endswith") and len(n.args) == 1:
                self.sites.append(("startswith<->endswith", i))
            elif isinstance(n, ast.Return) and n.value is not None and not (isinstance(n.value, ast.Constant) and n.value.value is None):
                self.sites.append(("return-none", i))
            elif isinstance(n, (ast.Continue, ast.Break)):
                self.sites.append(("continue<->break", i))
            elif isinstance(n, ast.Expr) and isinstance(n.value, ast.Call) and isinstance(n.value.func, ast.Attribute) and n.value.func.attr in ("append", "add", "update", "extend", "remove", "discard", "pop", "setdefault"):
                self.sites.append(("drop-call-stmt", i))
            elif isinstance(n, ast.Subscript) and isinstance(n.slice, ast.Slice):
                self.sites.append(("drop-slice", i))


def apply(tree, kind, idx):
    t = copy.deepcopy(tree)
    nodes = list(ast.walk(t))
    n = nodes[idx]
    if kind == "cmp":
        n.ops = [CMP[type(n.ops[0])]()]
    elif kind == "boolop":
        n.op = ast.Or() if isinstance(n.op, ast.And) else ast.And()
    elif kind == "drop-not":
        _replace(t, n, n.operand)
    elif kind == "negate-test":
        n.test = ast.UnaryOp(op=ast.Not(), operand=n.test)
    elif kind == "flip-bool":
        n.value = not n.value
    elif kind == "int+1":
        n.value = n.value + 1
    elif kind == "int-1":
        n.value = n.value - 1
    elif kind == "drop-dot-suffix":
        _replace(t, n, n.left)
    elif kind == "drop-dot-fstring":
        n.values = [v for v in n.values if not (isinstance(v, ast.Constant) and v.value == ".")]
    elif kind.startswith("unwrap-"):
        _replace(t, n, n.args[0])
    elif kind == "startswith<->endswith":
        n.func.attr = "endswith" if n.func.attr == "startswith" else "startswith"
    elif kind == "return-none":
        n.value = ast.Constant(value=None)
    elif kind == "continue<->break":
        _replace(t, n, ast.Break() if isinstance(n, ast.Continue) else ast.Continue())
    elif kind == "drop-call-stmt":
        _replace(t, n, ast.Pass())
    elif kind == "drop-slice":
        _replace(t, n, n.value)
    ast.fix_missing_locations(t)
    return t


def _replace(tree, old, new):
    for parent in ast.walk(tree):
        for field, value in ast.iter_fields(parent):
            if value is old:
                setattr(parent, field, new)
                return
            if isinstance(value, list):
                for k, v in enumerate(value):
                    if v is old:
                        value[k] = new
                        return


def mutants_of(rel):
    src = open(os.path.join(REPO, rel)).read()
    tree = ast.parse(src)
    base = ast.unparse(tree)
    out = []
    for kind, idx in Sites(tree).sites:
        try:
            m = ast.unparse(apply(tree, kind, idx))
        except Exception:  # noqa: BLE001
            continue
        if m == base:
            continue
        node = list(ast.walk(tree))[idx]
        line = getattr(node, "lineno", 0)
        out.append({"file": rel, "kind": kind, "line": line, "id": f"{os.path.basename(rel)[:-3]}:{line}:{kind}:{idx}", "source": m})
    return out


def all_files():
    out = []
    for d, _dirs, files in os.walk(os.path.join(REPO, SRC)):
        for f in sorted(files):
            if f.endswith(".py") and f != "__init__.py":
                rel = os.path.relpath(os.path.join(d, f), REPO)
                if "exceptions" in f:
                    continue
                out.append(rel)
    return sorted(out)


def worker_setup(k):
    wt = os.path.join(BASE, f"w{k}", "pytestarch")
    shutil.rmtree(os.path.dirname(wt), ignore_errors=True)
    os.makedirs(os.path.dirname(wt))
    rc, out = sh(f"git -C {REPO} worktree add --detach {wt} HEAD")
    if rc:
        raise RuntimeError(out)
    return wt


def run_mutant(m, wt, args, known=None):
    res = {k: m[k] for k in ("file", "kind", "line", "id")}
    sh("git checkout -q -- . && git clean -fdq", cwd=wt)
    with open(os.path.join(wt, m["file"]), "w") as f:
        f.write(m["source"])
    env = dict(os.environ, PYTHONPATH=os.path.join(wt, "src"), PYTHONDONTWRITEBYTECODE="1")
    if known is not None and "survives_repo_tests" in known:
        survived = known["survives_repo_tests"]
    else:
        rc, out = sh("/venv/bin/python -m pytest -q -p no:cacheprovider --timeout=60 -x", cwd=wt, env=env, timeout=400)
        survived = rc == 0 and bool(re.search(r"\b\d+ passed", out))
    res["survives_repo_tests"] = survived
    if not survived or args.phase == "tests":
        return res
    name = m["id"].replace(":", "_").replace("<", "").replace(">", "")
    env2 = dict(os.environ, PTA_REPO=wt, PTA_EVIDENCE_DIR=os.path.join(BASE, "ev", name), PTA_REPLAY_DIR=os.path.join(BASE, "rp", name), VERIF_JOBS=str(args.jobs), PTA_SHARD_TIMEOUT="150")
    res["checks"] = {}
    for c in checks_for(m["file"]):
        t0 = time.time()
        rc, out = sh(f"./check {c} --tier quick", cwd=VERIF, env=env2, timeout=1500)
        keys = re.findall(r"mechanism=(\S+)", out)
        res["checks"][c] = {"rc": rc, "mechanisms": keys[:3], "wall": round(time.time() - t0, 1)}
        if rc == 1:
            res["caught_by"] = c
            break
    shutil.rmtree(os.path.join(BASE, "ev", name), ignore_errors=True)
    shutil.rmtree(os.path.join(BASE, "rp", name), ignore_errors=True)
    return res


def main():
    ap = argparse.ArgumentParser()
    ap.add_argument("--list", action="store_true")
    ap.add_argument("--files")
    ap.add_argument("--max-per-file", type=int, default=0)
    ap.add_argument("--workers", type=int, default=5)
    ap.add_argument("--jobs", type=int, default=3)
    ap.add_argument("--seed", type=int, default=0)
    ap.add_argument("--recheck", action="store_true", help="with --phase checks: run the survivors no check caught so far again")
    ap.add_argument("--phase", default="all", choices=["tests", "checks", "all"], help="tests: only the repository's tests; checks: only survivors recorded by an earlier 'tests' run")
    ap.add_argument("--out", default=os.path.join(VERIF, "mutants", "MUTATION_AUDIT.json"))
    args = ap.parse_args()
    files = [f for f in all_files() if not args.files or any(x in f for x in args.files.split(","))]
    rnd = random.Random(args.seed)
    todo = []
    for f in files:
        ms = mutants_of(f)
        if args.max_per_file and len(ms) > args.max_per_file:
            ms = rnd.sample(ms, args.max_per_file)
        if args.list:
            print(f"{len(ms):5d}  {f}")
        todo += ms
    if args.list:
        print(f"{len(todo):5d}  total")
        return
    os.makedirs(BASE, exist_ok=True)
    pool = Queue()
    for k in range(args.workers):
        pool.put(worker_setup(k))
    results = []
    prev = {}
    if os.path.exists(args.out):
        prev = {r["id"]: r for r in json.load(open(args.out)).get("mutants", [])}
    if args.phase == "checks":
        todo = [m for m in todo if prev.get(m["id"], {}).get("survives_repo_tests") and ("checks" not in prev[m["id"]] or (args.recheck and not prev[m["id"]].get("caught_by")))]
        print(f"{len(todo)} survivors to run against the checks", flush=True)
    t0 = time.time()

    def job(m):
        wt = pool.get()
        try:
            return run_mutant(m, wt, args, prev.get(m["id"]) if args.phase == "checks" else None)
        except Exception as e:  # noqa: BLE001
            return {"id": m["id"], "file": m["file"], "kind": m["kind"], "line": m["line"], "error": f"{type(e).__name__}: {e}"}
        finally:
            pool.put(wt)

    def save():
        for r in results:
            prev[r["id"]] = r
        json.dump({"summary": {}, "mutants": sorted(prev.values(), key=lambda r: r["id"])}, open(args.out, "w"), indent=1)

    from concurrent.futures import as_completed

    try:
        with ThreadPoolExecutor(max_workers=args.workers) as ex:
            futs = [ex.submit(job, m) for m in todo]
            for i, fu in enumerate(as_completed(futs)):
                r = fu.result()
                results.append(r)
                if r.get("survives_repo_tests") and args.phase != "tests":
                    print(f"[{i + 1}/{len(todo)} {time.time() - t0:6.0f}s] {r['id']:60s} {'CAUGHT by ' + r['caught_by'] if r.get('caught_by') else 'SURVIVED ALL'}", flush=True)
                if (i + 1) % 25 == 0:
                    save()
                    if args.phase == "tests":
                        print(f"[{i + 1}/{len(todo)} {time.time() - t0:6.0f}s] survivors so far: {sum(1 for x in results if x.get('survives_repo_tests'))}", flush=True)
    finally:
        while not pool.empty():
            wt = pool.get()
            sh(f"git -C {REPO} worktree remove --force {wt}")
        sh(f"git -C {REPO} worktree prune")
        shutil.rmtree(BASE, ignore_errors=True)
    for r in results:
        prev[r["id"]] = r
    allr = sorted(prev.values(), key=lambda r: r["id"])
    surv = [r for r in allr if r.get("survives_repo_tests")]
    summary = {
        "generated": len(allr),
        "killed_by_the_repository_tests": sum(1 for r in allr if r.get("survives_repo_tests") is False),
        "survive_the_repository_tests": len(surv),
        "caught_by_a_check": sum(1 for r in surv if r.get("caught_by")),
        "not_caught": [r["id"] for r in surv if not r.get("caught_by")],
    }
    os.makedirs(os.path.dirname(args.out), exist_ok=True)
    json.dump({"summary": summary, "mutants": allr}, open(args.out, "w"), indent=1)
    print(json.dumps({k: v for k, v in summary.items() if k != "not_caught"}), f"not caught: {len(summary['not_caught'])}")


if __name__ == "__main__":
    main()
