#!/venv/bin/python
"""Self-audit: do the checks fire on realistic property-breaking changes?

Mutants:
  * revert:<commit>   - every 'fix:' commit of /repo reverted (the original defects)
  * mutants/*.patch   - further hand-written / sub-agent-written edits; header lines
                          # property: C02        (property the edit breaks)
                          # checks: C02,C09      (optional: checks expected to fire; default = property)
                          # tests: skip          (optional: do not require the repo tests to pass)
  * seeded/<id>/patch.diff with meta.json {"property": ..}

Each mutant is applied in a scratch git worktree of /repo under /dev/shm (removed afterwards), the
repository's own tests are run there (a mutant killed by the tests is not 'realistic'), then the quick
checks run with PTA_REPO pointing at the worktree.  Results: mutants/RESULTS.json + a table on stdout.
"""
import argparse
import json
import os
import re
import shutil
import subprocess
import sys
import time
from concurrent.futures import ThreadPoolExecutor

VERIF = os.path.dirname(os.path.dirname(os.path.abspath(__file__)))
REPO = "/repo"
BASE = "/dev/shm/pta_audit"


def sh(cmd, cwd=None, env=None, timeout=1800):
    p = subprocess.run(cmd, shell=True, cwd=cwd, env=env, capture_output=True, text=True, timeout=timeout)
    return p.returncode, p.stdout + p.stderr


def fix_commits():
    rc, out = sh("git log --format='%h %s' --reverse", cwd=REPO)
    return [(l.split()[0], l.split(" ", 1)[1]) for l in out.strip().split("\n") if " fix:" in " " + l.split(" ", 1)[1][:5] or l.split(" ", 1)[1].startswith("fix:")]


def known_fixed_props():
    m = {}
    for line in open(os.path.join(VERIF, "KNOWN_FINDINGS.txt")):
        if line.startswith("fixed:"):
            parts = line.split()
            m[parts[2]] = parts[1].split("=")[1]
    return m


def collect(args):
    muts = []
    fixed = known_fixed_props()
    for h, subj in fix_commits():
        if os.path.exists(os.path.join(VERIF, "mutants", f"revert-{h}.patch")):
            continue  # the revert conflicts with a later fix and is kept as a hand-made patch of the same name
        prop = fixed.get(h)
        muts.append({"name": f"revert-{h}", "kind": "revert", "commit": h, "property": prop, "checks": [prop] if prop else [], "desc": subj})
    mdir = os.path.join(VERIF, "mutants")
    for f in sorted(os.listdir(mdir)) if os.path.isdir(mdir) else []:
        if not f.endswith(".patch"):
            continue
        head = open(os.path.join(mdir, f)).read(2000)
        prop = re.search(r"^# property: (\S+)", head, re.M)
        checks = re.search(r"^# checks: (\S+)", head, re.M)
        tests = re.search(r"^# tests: (\S+)", head, re.M)
        muts.append({"name": f[:-6], "kind": "patch", "patch": os.path.join(mdir, f), "property": prop.group(1) if prop else None, "checks": checks.group(1).split(",") if checks else ([prop.group(1)] if prop else []), "tests": tests.group(1) if tests else "run", "desc": head.split("\n")[0][:100]})
    sdir = os.path.join(VERIF, "seeded")
    for d in sorted(os.listdir(sdir)) if os.path.isdir(sdir) else []:
        meta = os.path.join(sdir, d, "meta.json")
        patch = os.path.join(sdir, d, "patch.diff")
        if os.path.exists(meta) and os.path.exists(patch):
            mj = json.load(open(meta))
            if mj.get("not_counted") and not args.only:
                continue  # recorded as outside the properties' quantifier (see its meta.json)
            muts.append({"name": f"seeded-{d}", "kind": "patch", "patch": patch, "property": mj["property"], "checks": mj.get("checks") or [mj["property"]], "desc": mj.get("summary", "")[:100]})
    if args.only:
        muts = [m for m in muts if any(o in m["name"] for o in args.only.split(","))]
    return muts


def run_mutant(m, args):
    wt = os.path.join(BASE, m["name"], "pytestarch")
    shutil.rmtree(os.path.dirname(wt), ignore_errors=True)
    os.makedirs(os.path.dirname(wt))
    res = dict(m)
    t0 = time.time()
    try:
        rc, out = sh(f"git -C {REPO} worktree add --detach {wt} HEAD")
        if rc:
            res["error"] = "worktree: " + out[-300:]
            return res
        if m["kind"] == "revert":
            rc, out = sh(f"git revert --no-commit {m['commit']}", cwd=wt)
        else:
            rc, out = sh(f"git apply {m['patch']}", cwd=wt)
        if rc:
            res["error"] = "apply: " + out[-400:]
            return res
        if m.get("tests") != "skip" and not args.no_tests:
            rc, out = sh("/venv/bin/python -m pytest -q -p no:cacheprovider --timeout=900 -x 2>&1 | grep -E '[0-9]+ (passed|failed)' | tail -1", cwd=wt, env=dict(os.environ, PYTHONPATH=os.path.join(wt, "src")))
            res["tests"] = out.strip().split("\n")[-1][:120]
            res["tests_pass"] = bool(re.search(r"\b\d+ passed", out)) and "failed" not in out and "error" not in out.lower()
        env = dict(os.environ, PTA_REPO=wt, PTA_EVIDENCE_DIR=os.path.join(BASE, m["name"], "evidence"), PTA_REPLAY_DIR=os.path.join(BASE, m["name"], "replays"), VERIF_JOBS=str(args.jobs))
        res["results"] = {}
        checks = args.checks.split(",") if args.checks else (m["checks"] or [])
        if args.all_checks:
            checks = [f"C{i:02d}" for i in range(1, 18)]
        for c in checks:
            t1 = time.time()
            rc, out = sh(f"./check {c} --tier {args.tier}", cwd=VERIF, env=env, timeout=3600)
            keys = re.findall(r"mechanism=(\S+)", out)
            res["results"][c] = {"rc": rc, "mechanisms": keys[:8], "wall": round(time.time() - t1, 1)}
    except Exception as e:  # noqa: BLE001
        res["error"] = f"{type(e).__name__}: {e}"
    finally:
        sh(f"git -C {REPO} worktree remove --force {wt}")
        shutil.rmtree(os.path.join(BASE, m["name"]), ignore_errors=True)
        res["wall"] = round(time.time() - t0, 1)
    return res


def main():
    ap = argparse.ArgumentParser()
    ap.add_argument("--only")
    ap.add_argument("--checks")
    ap.add_argument("--all-checks", action="store_true")
    ap.add_argument("--tier", default="quick")
    ap.add_argument("--jobs", type=int, default=6)
    ap.add_argument("--parallel", type=int, default=3)
    ap.add_argument("--no-tests", action="store_true")
    args = ap.parse_args()
    muts = collect(args)
    os.makedirs(BASE, exist_ok=True)
    results = []
    with ThreadPoolExecutor(max_workers=args.parallel) as ex:
        for r in ex.map(lambda m: run_mutant(m, args), muts):
            results.append(r)
            own = r.get("results", {})
            fired = [c for c, v in own.items() if v["rc"] == 1]
            status = "ERROR " + r["error"][:150] if "error" in r else ("CAUGHT by " + ",".join(fired) if fired else "MISSED")
            print(f"{r['name']:32s} prop={r.get('property')} tests={'pass' if r.get('tests_pass') else r.get('tests', 'n/a')!s:40.40s} {status}  {[(c, v['mechanisms'][:2]) for c, v in own.items() if v['rc'] == 1][:3]}", flush=True)
    sh(f"git -C {REPO} worktree prune")
    shutil.rmtree(BASE, ignore_errors=True)
    out = os.path.join(VERIF, "mutants", "RESULTS.json")
    os.makedirs(os.path.dirname(out), exist_ok=True)
    prev = {}
    if os.path.exists(out):
        prev = {r["name"]: r for r in json.load(open(out))}
    for r in results:
        prev[r["name"]] = r
    json.dump(sorted(prev.values(), key=lambda r: r["name"]), open(out, "w"), indent=1)
    missed = [r["name"] for r in results if "error" not in r and not any(v["rc"] == 1 for v in r.get("results", {}).values())]
    print(f"{len(results)} mutants, missed: {missed}")


if __name__ == "__main__":
    main()
